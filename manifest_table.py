NOT_APPLICABLE = {}
add("C10", "exploration",
    "Generated JSON values in several textual spellings plus every Unicode scalar value; the canonical bytes are compared across spellings and decoded by an independent strict scanner (round trip + validity predicate). Search, not proof: holds on the reported number of distinct values.",
    "serde_json trusted as reader of generated text; scanner and decimal arithmetic are the harness' own",
    "property-based testing (proptest) + bounded enumeration; round-trip and validity-predicate oracle", "DESIGN.md section 5 C10")
add("C11", "exploration",
    "Generated links/layouts with adversarial text in every string field; signatures made with ring over an independent OLPC encoder must verify in the library and library Ed25519 signatures must equal ring's over those bytes; key ids compared with the reference formula. The OLPC model is anchored to Python-signed fixtures by a self test.",
    "OLPC encoder transcribed from securesystemslib; ring trusted",
    "property-based testing (proptest) + exhaustive two-character table; differential against reference encoder", "DESIGN.md section 5 C11")
add("C20", "exploration",
    "Generated (type,payload) pairs, near-collision pairs and mutated encodings; exhaustive decoder inputs over a framing alphabet up to a bounded length. Round trip, reference-encoder differential, injectivity on generated pairs, no-panic on decode.",
    "reference PAE transcribed from the DSSE spec; pack/unpack reached through the verif-hooks re-export",
    "property-based testing (proptest) + bounded-exhaustive enumeration; round-trip / differential oracle", "DESIGN.md section 5 C20")
