NOT_APPLICABLE = {}
PBT = "property-based testing (proptest TestRunner, shrinking, replay)"
add("C01", "exploration",
    "Generated end-to-end worlds (valid layout + link directory) crossed with signer subsets, caller key-set classes, post-signing edits of the signed JSON and signature corruptions; in_toto_verify may return Ok only when the ground-truth model (who signed what, by construction) says every caller key has an intact signature. Each negative case is paired with a control that must verify. Search, not proof.",
    "ring sound; forged = forgeries the generator can make; edit observability decided by comparing parsed metadata",
    PBT + "; metamorphic relation (mutate signed content / signatures => must reject) against a by-construction ground-truth model", "DESIGN.md section 5 C01")
add("C02", "exploration",
    "Generated worlds with 1-3 faults on chosen link files (unauthorised functionary, key missing from table, stranger, mislabelled, tampered, aliased key-table entry, ...), plus an exhaustive 625-population sub-space; Ok only if every step has enough authorised, intact links per the ground-truth model; controls must verify.",
    "ring sound; 8-hex prefixes of generated key ids distinct (colliding cases discarded)",
    PBT + " + bounded-exhaustive enumeration; by-construction ground-truth model with control runs", "DESIGN.md section 5 C02")
add("C03", "exploration",
    "Differential test of the per-item rule application (guarded re-export) against a reference rule engine transcribed from the specification and self-tested on the Python-made demo chain; both directions; random rule lists/artifact sets plus exhaustive rule lists of length <=2 (quick) / <=3 (thorough) over a 31-rule alphabet.",
    "reference engine is the harness' transcription of the spec; normalised relative paths and portable glob subset",
    PBT + " + bounded-exhaustive enumeration; differential against a reference model", "DESIGN.md section 5 C03 and Appendix A")
add("C04", "exploration",
    "Generated signature lists (valid, re-signed, bit-flipped, mislabelled, other content) x authorised lists x thresholds x permutations over all key types, plus an exhaustive small space; only-if and (for one-signature-per-key lists) converse oracle from by-construction ground truth; permutation invariance.",
    "ring sound", PBT + " + bounded-exhaustive enumeration; ground truth by construction, metamorphic permutation relation", "DESIGN.md section 5 C04")
add("C05", "exploration",
    "Single-site edits of signed documents (near-collision string rewrites, key/value shifts, array merges/splits, numbers), bulk collision search over a near-collision alphabet, and JSON value pairs: a stale signature must not verify when parsed values differ; equal Ed25519 signatures only for equal values; distinct values => distinct canonical bytes.",
    "Ed25519 signature as proxy for signed bytes; observability = library PartialEq on parsed metadata",
    PBT + "; metamorphic relation (observable edit => signature invalid) and injectivity search", "DESIGN.md section 5 C05")
add("C06", "exploration",
    "Valid worlds with the expiry placed at controlled offsets (ms to decades) from the wall clock or from an injected clock, re-spelled in arbitrary UTC offsets / fractions / lower case, top-level and in sub-layouts; expired => must be Err; straddling cases skipped; controls must verify.",
    "clock hook shadows the wall-clock read (half the cases run with the hook off)",
    PBT + "; oracle = independent RFC 3339 arithmetic + clock bracket", "DESIGN.md section 5 C06")
add("C07", "exploration",
    "Multi-party steps with one dissenting, validly re-signed link (path/digest/algorithm/entry edits in materials or products, dissenter first/middle/last by key id): Ok only if all counted links agree; controls must verify.",
    "ground truth by construction", PBT + "; metamorphic relation against ground truth", "DESIGN.md section 5 C07")
add("C08", "fault_enumeration",
    "Enumerates the stage at which verification fails (9 stages + none) x inspection commands (exit 0/non-zero/not found/killed; file-creating/modifying/deleting ops) in a fresh working directory: pre-inspection failure => Err, no sentinel file, no inspection link file; non-zero exit => Err; exit 0 => inspection rules enforced per the reference engine on an independent before/after snapshot.",
    "POSIX sh available; worker-private cwd",
    PBT + " with fault injection per verification stage; sentinel-file side-effect oracle + reference rule engine", "DESIGN.md section 5 C08")
add("C09", "exploration",
    "Library-signed blocks over all key types/schemes, 1-3 signers, three construction paths, four wire forms: must parse back and verify with threshold = number of signers; must not verify under an unrelated key, after sampled single-bit flips of the signature, or under the same material declared with another scheme.",
    "ring sound; bit flips sampled", PBT + "; round-trip oracle + negative metamorphic relations", "DESIGN.md section 5 C09")
add("C10", "exploration",
    "Generated JSON values in several textual spellings plus every Unicode scalar value; the canonical bytes are compared across spellings and decoded by an independent strict scanner (round trip + validity predicate); non-integer literals must be rejected.",
    "serde_json trusted as reader of generated text; scanner and decimal arithmetic are the harness' own",
    PBT + " + bounded enumeration; round-trip and validity-predicate oracle", "DESIGN.md section 5 C10")
add("C11", "exploration",
    "Generated links/layouts with adversarial text in every string field; signatures made with ring over an independent OLPC encoder must verify in the library and library Ed25519 signatures must equal ring's over those bytes; key ids compared with the reference formula. The OLPC model is anchored to Python-signed fixtures by a self test.",
    "OLPC encoder transcribed from securesystemslib; ring trusted",
    PBT + " + exhaustive two-character table and all Unicode scalars; differential against reference encoder", "DESIGN.md section 5 C11")
add("C12", "exploration",
    "Keys of all types through every construction path (raw, DER SPKI from the harness' RFC encoders cross-checked with OpenSSL output, PEM, PKCS#8 derivation, JSON), synthetic material, and layout key tables filing keys under wrong ids: key id == reference formula, equal across paths, JSON round trip, SPKI import/export identity, no aliased table entry survives parsing (end-to-end aliasing attack in C02).",
    "reference key-id formula anchored to the Python-made fixture; DER writers anchored to OpenSSL 3",
    PBT + "; differential against reference encoders, round-trip oracle", "DESIGN.md section 5 C12")
add("C13", "exploration",
    "Worlds where a threshold<=1 step has several differing valid links (optionally with a rule only some violate), files created in generated order: 16 in-process repetitions (fresh hash keys per map) + 2 fresh processes (64 + 8 thorough) must give one verdict and one summary.",
    "hash seeds sampled by repetition (miss probability 2^-17 per world for a fair flip)",
    PBT + "; invariant over repetitions / fresh processes (determinism oracle)", "DESIGN.md section 5 C13")
add("C14", "exploration",
    "Mutational (bit flips, truncation, dictionary insertion, splices over generated documents, Python-made fixtures, OpenSSL-made DER/PEM) and structured adversarial inputs (multi-byte key ids, weird step names, non-normalised paths, extreme numbers, extra files) offered to every parser, key importer, block verification, rule application and in_toto_verify under catch_unwind; worker death is attributed through a saved current-case file.",
    "non-termination only visible as time-out (exit 2); thorough tier adds libFuzzer targets when built",
    PBT + " + mutation-based fuzzing from a seed corpus with dictionary; crash oracle", "DESIGN.md section 5 C14")
add("C15", "exploration",
    "Two- (thorough three-) level delegation trees with one inner fault (wrong/absent signer, expiry, misplaced links, inner link faults, inner rule failure, edited inner layout), optional MATCH ties to the delegated step and requested step names: Ok only if the recursive ground-truth model finds no violated condition; on Ok the summary equals first-step materials / last-step products, command, byproducts.",
    "ground truth by construction + reference rule engine",
    PBT + "; recursive by-construction model, summary equality oracle, controls", "DESIGN.md section 5 C15")
add("C16", "exploration",
    "Builder-made layouts/links/blocks and harness-rendered wire documents: parse(ser(v))==v (compact, pretty), re-serialisation byte-identical over 8 freshly parsed instances, no accepted field altered, edge expiry spellings.",
    "consistent key tables; expiry within 0000..9999 at whole seconds; hash orders sampled by repetition",
    PBT + "; round-trip oracle", "DESIGN.md section 5 C16")
add("C17", "exploration",
    "Valid and edited documents of 18 types in random spellings (escapes, whitespace, order), optionally truncated: seven decoding channels (str, slice, chunked reader, JSON tree, Json helpers) must all fail or all yield equal values.",
    "no duplicate member names (serde_json channel difference)",
    PBT + "; differential between decoding channels", "DESIGN.md section 5 C17")
add("C18", "exploration",
    "Generated directory trees (sizes around the 1024-byte buffer, odd names, absolute/relative symlinks, chains, cycles), argument lists, strip prefixes, algorithms, and shell commands: record_artifacts / in_toto_run compared with an independent walk and the harness' own SHA-2.",
    "dangling symlinks and non-UTF-8 names excluded; SHA-2 validated against NIST vectors and ring",
    PBT + "; differential against an independent walk + digest implementation", "DESIGN.md section 5 C18")
add("C19", "exploration",
    "Statement/predicate documents with every optional-member combination, matching and mismatching declared types, tree edits: exactly-one-format, version(), canonical round trip incl. timestamps, declared predicate type == embedded format, from_meta carries link content over.",
    "concrete format types via guarded re-exports",
    PBT + "; round-trip and consistency oracles", "DESIGN.md section 5 C19")
add("C20", "exploration",
    "Generated (type,payload) pairs, near-collision pairs and mutated encodings; exhaustive decoder inputs over a framing alphabet up to a bounded length. Round trip, reference-encoder differential, injectivity on generated pairs, no-panic on decode.",
    "reference PAE transcribed from the DSSE spec; pack/unpack reached through the verif-hooks re-export",
    PBT + " + bounded-exhaustive enumeration; round-trip / differential oracle", "DESIGN.md section 5 C20")
