#!/bin/bash
# usage: tools_seeded.sh confirm <ID> <name> <worktree>   -- confirm a sub-agent's change in its scratch worktree and store it under seeded/<name>
#        tools_seeded.sh run <name> [check ids...]         -- apply seeded/<name>/patch.diff to /repo, run the quick checks, revert
set -u
cmd="$1"; shift
case "$cmd" in
confirm)
  id="$1"; name="$2"; wt="$3"
  out=/verif/seeded/$name; mkdir -p "$out"
  git -C "$wt" diff -- src > "$out/patch.diff"
  cp "$wt/tests/seeded_demo.rs" "$out/seeded_demo.rs"
  export CARGO_TARGET_DIR="$wt/target" CARGO_NET_OFFLINE=true
  FEAT=""; grep -q 'feature = "verif-hooks"' "$out/seeded_demo.rs" && FEAT="--features verif-hooks"
  cd "$wt" || exit 2
  echo "== demo WITH change (must fail)"
  cargo test --offline $FEAT --test seeded_demo >"$out/demo_with.log" 2>&1; with=$?
  grep -E "^test result|^test .* FAILED" "$out/demo_with.log" | head -5
  echo "== existing suite WITH change (must pass)"
  mv tests/seeded_demo.rs /tmp/seeded_demo_$$.rs
  cargo test --workspace --no-fail-fast --offline >"$out/suite_with.log" 2>&1; suite=$?
  grep -E "^test result" "$out/suite_with.log"
  mv /tmp/seeded_demo_$$.rs tests/seeded_demo.rs
  echo "== demo WITHOUT change (must pass)"
  git diff -- src > "$wt/.confirm.patch"; git checkout -q -- src
  cargo test --offline $FEAT --test seeded_demo >"$out/demo_without.log" 2>&1; without=$?
  grep -E "^test result" "$out/demo_without.log"
  git apply "$wt/.confirm.patch"; rm -f "$wt/.confirm.patch"
  echo "with=$with suite=$suite without=$without"
  if [ $with -ne 0 ] && [ $suite -eq 0 ] && [ $without -eq 0 ]; then echo CONFIRMED; else echo NOT-CONFIRMED; fi
  ;;
run)
  name="$1"; shift
  patch=/verif/seeded/$name/patch.diff
  if [ -n "$(git -C /repo status --porcelain)" ]; then echo "/repo not clean"; exit 2; fi
  git -C /repo apply "$patch" || exit 2
  for id in "$@"; do
    /verif/check "$id" --tier quick 2>&1 | grep -E "^(VIOLATION|OK|INCONCLUSIVE|KNOWN|GENERATOR|HARNESS|TIMEOUT|BUILD)" | head -4 | sed "s/^/[$name $id] /"
  done
  git -C /repo checkout -- .
  ;;
esac
