#![no_main]
use libfuzzer_sys::fuzz_target;

fuzz_target!(|data: &[u8]| {
    if let Err(e) = itv_oracles::parse_metablock(data) {
        panic!("ORACLE: {}", e);
    }
});
