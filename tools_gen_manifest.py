#!/usr/bin/env python3
"""Regenerates /verif/MANIFEST.json from the table below (kept in one place so the manifest stays valid)."""
import json, sys
HOOK_COMMITS = ["12b09ca"]
CHECKS = {}
def add(pid, level, text, note, technique, design):
    CHECKS[pid] = dict(level=level, text=text, note=note, technique=technique, design=design)

exec(open('/verif/manifest_table.py').read())

allp = [json.loads(l)["id"] for l in open('/verif/properties.jsonl')]
checks = []
for pid in allp:
    if pid not in CHECKS: continue
    c = CHECKS[pid]
    checks.append({
        "property_id": pid,
        "quick_cmd": f"./check {pid} --tier quick",
        "thorough_cmd": f"./check {pid} --tier thorough",
        "evidence_file": f"/verif/evidence/{pid}.json",
        "replay_cmd_template": f"./check {pid} --replay {{path}}",
        "engine": "itv",
        "level_claimed": {"category": c["level"], "text": c["text"], "design_ref": c["design"]},
        "level_note": c["note"],
        "technique": c["technique"],
    })
na = [{"property_id": p, "reason": NOT_APPLICABLE.get(p, "check not built yet (work in progress; planned in DESIGN.md section 5)")} for p in allp if p not in CHECKS]
m = {
    "version": 1,
    "setup_cmd": "cd /verif/harness && CARGO_NET_OFFLINE=true cargo build --release --offline",
    "hooks": {
        "guard": "cargo feature verif-hooks (in-toto crate)",
        "enable": "the harness crate path-depends on /repo with features=[\"verif-hooks\"]; every ./check run does cargo build --release, which rebuilds in-toto from /repo's working tree",
        "baseline_off_cmd": "cd /repo && cargo test --workspace --no-fail-fast --offline",
        "source_commits": HOOK_COMMITS,
        "add_only": True,
    },
    "engines": [
        {"name": "itv", "path": "/verif/harness", "serves_properties": sorted(CHECKS.keys()),
         "kind_free_text": "proptest 1.11 TestRunner driven from a binary (16 worker processes, deterministic seeds from VERIF_SEED, shrinking, replay files) plus bounded-exhaustive enumerations; oracles are reference models, round trips, differentials and metamorphic relations written in the harness"},
    ],
    "checks": checks,
    "not_applicable": na,
    "notes": "See DESIGN.md. KNOWN_FINDINGS.txt lists repaired defects (fixed:) and recorded ones (known:). Exit codes of ./check: 0 held, 1 VIOLATION, 2 inconclusive.",
}
json.dump(m, open('/verif/MANIFEST.json', 'w'), indent=1)
print("checks:", len(checks), "not_applicable:", len(na))
