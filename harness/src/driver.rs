//! Driver: forks worker processes, aggregates, writes evidence, prints the
//! VIOLATION / KNOWN-FINDING lines and chooses the exit code.

use std::collections::{BTreeMap, HashSet};
use std::path::PathBuf;
use std::process::{Command, Stdio};
use std::time::{Duration, Instant};

use crate::fw::*;

pub struct RunArgs {
    pub tier: Tier,
    pub seed: u64,
    pub workers: usize,
    pub cases_override: Option<u64>,
    pub timeout_s: u64,
}

fn tmp_root() -> PathBuf {
    let base = std::env::var("VERIF_TMP").map(PathBuf::from).unwrap_or_else(|_| std::env::temp_dir());
    base.join(format!("itv-{}-{}", std::process::id(), chrono::Utc::now().timestamp_millis()))
}

pub fn run_property<P: Property>(args: RunArgs) -> i32 {
    let id = P::id();
    let start = Instant::now();
    let root = tmp_root();
    std::fs::create_dir_all(&root).expect("tmp root");
    let code = run_inner::<P>(&args, &root, start);
    let _ = std::fs::remove_dir_all(&root);
    if code == 2 {
        println!("INCONCLUSIVE property={} (exit 2: harness/build/timeout problem, not a violation)", id);
    }
    code
}

fn run_inner<P: Property>(args: &RunArgs, root: &PathBuf, start: Instant) -> i32 {
    let id = P::id();
    // self test in-process (stdout of the library is not a concern here: selftests avoid noisy calls)
    {
        let scratch = root.join("selftest");
        std::fs::create_dir_all(&scratch).unwrap();
        let mut env = Env::new(args.tier, args.seed, 0, 1, scratch);
        match guarded(|| P::selftest(&mut env)) {
            Ok(Ok(())) => {}
            Ok(Err(e)) => {
                println!("SELFTEST-FAILED property={} {}", id, e);
                return 2;
            }
            Err(pi) => {
                println!("SELFTEST-PANIC property={} {}:{} {}", id, pi.file, pi.line, pi.message);
                return 2;
            }
        }
    }

    let exe = std::env::current_exe().expect("current exe");
    let mut children = vec![];
    for w in 0..args.workers {
        let out = root.join(format!("w{}.json", w));
        let scratch = root.join(format!("s{}", w));
        std::fs::create_dir_all(&scratch).unwrap();
        let mut cmd = Command::new(&exe);
        cmd.arg("worker")
            .arg(id)
            .arg("--tier")
            .arg(args.tier.name())
            .arg("--seed")
            .arg(args.seed.to_string())
            .arg("--index")
            .arg(w.to_string())
            .arg("--of")
            .arg(args.workers.to_string())
            .arg("--out")
            .arg(&out)
            .arg("--scratch")
            .arg(&scratch)
            .stdin(Stdio::null())
            .stdout(Stdio::null())
            .stderr(Stdio::piped());
        if let Some(c) = args.cases_override {
            cmd.arg("--cases").arg(c.to_string());
        }
        let child = cmd.spawn().expect("spawn worker");
        children.push((w, out, child, None::<std::process::ExitStatus>));
    }

    let deadline = start + Duration::from_secs(args.timeout_s);
    let mut timed_out = false;
    loop {
        let mut running = 0;
        for (_, _, child, status) in children.iter_mut() {
            if status.is_none() {
                match child.try_wait() {
                    Ok(Some(s)) => *status = Some(s),
                    Ok(None) => running += 1,
                    Err(_) => running += 1,
                }
            }
        }
        if running == 0 {
            break;
        }
        if Instant::now() > deadline {
            timed_out = true;
            for (_, _, child, status) in children.iter_mut() {
                if status.is_none() {
                    let _ = child.kill();
                    let _ = child.wait();
                }
            }
            break;
        }
        std::thread::sleep(Duration::from_millis(50));
    }

    // aggregate
    let mut agg = WorkerReport::default();
    let mut fps: HashSet<u64> = HashSet::new();
    let mut incomplete = vec![];
    let mut crashes: Vec<(usize, String, Option<PathBuf>)> = vec![];
    let mut max_wall = 0f64;
    let mut agg_slowest: (f64, String) = (0.0, String::new());
    for (w, out, child, status) in children.iter_mut() {
        let mut stderr_txt = String::new();
        if let Some(mut e) = child.stderr.take() {
            use std::io::Read;
            let _ = e.read_to_string(&mut stderr_txt);
        }
        let ok_exit = status.map(|s| s.success()).unwrap_or(false);
        match std::fs::read(&*out).ok().and_then(|b| from_slice_deep::<WorkerReport>(&b).ok()) {
            Some(rep) if ok_exit => {
                agg.generated += rep.generated;
                agg.enumerated += rep.enumerated;
                agg.replayed += rep.replayed;
                agg.evaluations += rep.evaluations;
                agg.nontrivial_cases += rep.nontrivial_cases;
                agg.fp_capped |= rep.fp_capped;
                fps.extend(rep.nontrivial_fps.iter());
                for (k, v) in rep.classes {
                    *agg.classes.entry(k).or_insert(0) += v;
                }
                for s in rep.samples {
                    if agg.samples.len() < 8 {
                        agg.samples.push(s);
                    }
                }
                for v in rep.violations {
                    let size = |x: &FoundViolation| serde_json::to_string(&x.spec).map(|s| s.len()).unwrap_or(usize::MAX);
                    match agg.violations.iter().position(|x| x.signature == v.signature) {
                        None => agg.violations.push(v),
                        Some(i) => {
                            if size(&v) < size(&agg.violations[i]) {
                                agg.violations[i] = v;
                            }
                        }
                    }
                }
                for (k, v) in rep.known_hits {
                    *agg.known_hits.entry(k).or_insert(0) += v;
                }
                for (k, v) in rep.known_samples {
                    agg.known_samples.entry(k).or_insert(v);
                }
                agg.harness_errors.extend(rep.harness_errors);
                if !rep.completed {
                    incomplete.push(*w);
                }
                if rep.slowest_s > agg_slowest.0 {
                    agg_slowest = (rep.slowest_s, rep.slowest_spec.clone());
                }
                if rep.wall_s > max_wall {
                    max_wall = rep.wall_s;
                }
            }
            _ => {
                if timed_out && status.is_none() {
                    incomplete.push(*w);
                } else {
                    // abnormal death: look for current.json
                    let cur = out.with_extension("current.json");
                    let desc = format!(
                        "worker {} died: status={:?} stderr={}",
                        w,
                        status,
                        stderr_txt.chars().take(400).collect::<String>()
                    );
                    crashes.push((*w, desc, if cur.exists() { Some(cur) } else { None }));
                }
            }
        }
    }

    let known = Known::load(id);
    let wall = start.elapsed().as_secs_f64();
    let verif = crate::verif_root();
    let outdir = verif.join("out").join("violations").join(id);

    // a crash with a current.json whose replay crashes again is a violation (process death)
    let mut violation_lines = vec![];
    for (w, desc, cur) in &crashes {
        if let Some(cur) = cur {
            let _ = std::fs::create_dir_all(&outdir);
            let dst = outdir.join(format!("crash-w{}-seed{}.json", w, args.seed));
            let spec: serde_json::Value = std::fs::read(cur)
                .ok()
                .and_then(|b| from_slice_deep(&b).ok())
                .unwrap_or(serde_json::Value::Null);
            let doc = serde_json::json!({"property": id, "signature": format!("{}/process-death", id),
                "observed": desc, "expected": "worker survives", "spec": spec});
            let _ = std::fs::write(&dst, serde_json::to_vec_pretty(&doc).unwrap());
            // confirm out of process
            let st = Command::new(std::env::current_exe().unwrap())
                .arg("replay")
                .arg(id)
                .arg(&dst)
                .stdout(Stdio::null())
                .stderr(Stdio::null())
                .status();
            let died = st.map(|s| s.code().is_none() || s.code() == Some(101) || s.code() == Some(134)).unwrap_or(false);
            if died {
                violation_lines.push((format!("{}/process-death", id), dst));
            } else {
                agg.harness_errors.push(format!("{} (did not reproduce from saved input)", desc));
            }
        } else {
            agg.harness_errors.push(desc.clone());
        }
    }

    for v in &agg.violations {
        let _ = std::fs::create_dir_all(&outdir);
        let name = format!(
            "{}-seed{}.json",
            v.signature.replace(|c: char| !c.is_ascii_alphanumeric() && c != '-' && c != '_', "_"),
            args.seed
        );
        let dst = outdir.join(name);
        let doc = serde_json::json!({"property": id, "signature": v.signature, "observed": v.observed,
            "expected": v.expected, "origin": v.origin, "spec": v.spec});
        let _ = std::fs::write(&dst, serde_json::to_vec_pretty(&doc).unwrap());
        violation_lines.push((v.signature.clone(), dst));
    }

    // health checks
    let mut health = vec![];
    let gen = agg.generated.max(1) as f64;
    let completed_ok = incomplete.is_empty() && !timed_out;
    if completed_ok && agg.generated > 0 {
        let frac = agg.nontrivial_cases as f64 / (agg.generated + agg.enumerated + agg.replayed).max(1) as f64;
        if frac < P::nontrivial_floor() {
            health.push(format!("non-trivial fraction {:.4} below floor {:.4}", frac, P::nontrivial_floor()));
        }
        for (c, fl) in P::class_floors() {
            let n = *agg.classes.get(c).unwrap_or(&0) as f64;
            if n / gen < fl {
                health.push(format!("class '{}' fraction {:.4} below floor {:.4}", c, n / gen, fl));
            }
        }
    }

    // evidence
    let distinct = fps.len() as u64;
    let mut rule = P::rule();
    if P::repeat_every() > 0 {
        rule.push_str(&format!(
            " History (framework): one generated case in {} (chosen by a hash of the case) and every regression replay is evaluated twice in a row in the same process and must pass both times (class evaluated-twice); each worker process evaluates its some hundred to some thousand cases one after the other, so every case also runs after the accepted and rejected inputs of all earlier ones.",
            P::repeat_every()
        ));
    }
    rule.push_str(" Logging (framework): the odd-numbered worker processes, and every replay, run with a log sink at trace level installed, so the arguments of the library's log statements are evaluated; the even-numbered ones run with logging off.");
    if P::concurrent() {
        rule.push_str(" Concurrent use (framework): per worker an eighth of its cases (between 16 and 256; non-trivial ones that passed alone) are evaluated again from 4 threads at once, each thread starting at a different offset, and must pass again (class evaluated-concurrently).");
    }
    if agg.fp_capped {
        rule.push_str(" [distinct count capped per worker at 3e6 fingerprints: conservative]");
    }
    let classes: BTreeMap<String, u64> = agg.classes.clone();
    let exhaustive = P::enumeration_exhaustive(args.tier);
    let mut coverage = serde_json::json!({
        "evaluations": agg.evaluations,
        "cases_generated": agg.generated,
        "cases_enumerated": agg.enumerated,
        "regression_replays": agg.replayed,
        "nontrivial_cases": agg.nontrivial_cases,
        "distinct_nontrivial": distinct,
        "rule": rule,
        "samples": agg.samples,
        "class_histogram": classes,
        "known_findings_hit": agg.known_hits,
        "workers": args.workers,
        "incomplete_workers": incomplete,
        "timed_out": timed_out,
        "health": health,
        "slowest_case": {"seconds": agg_slowest.0, "spec_abridged": agg_slowest.1},
        "harness_errors": agg.harness_errors.iter().take(5).collect::<Vec<_>>(),
        "fixed_findings_on_record": known.fixed,
    });
    if let Some(what) = &exhaustive {
        if completed_ok {
            coverage["exhaustive_subspace"] = serde_json::json!(what);
        }
    }
    let ev = serde_json::json!({
        "property_id": id,
        "tier": args.tier.name(),
        "seed": args.seed,
        "level": P::level(),
        "coverage": coverage,
        "assumptions": P::assumptions(),
        "wall_s": wall,
        "violations": violation_lines.len(),
    });
    let evdir = verif.join("evidence");
    let _ = std::fs::create_dir_all(&evdir);
    let _ = std::fs::write(evdir.join(format!("{}.json", id)), serde_json::to_vec_pretty(&ev).unwrap());

    // report
    println!(
        "property={} tier={} seed={} generated={} enumerated={} replayed={} evaluations={} nontrivial={} distinct_nontrivial={} wall_s={:.1}",
        id, args.tier.name(), args.seed, agg.generated, agg.enumerated, agg.replayed, agg.evaluations,
        agg.nontrivial_cases, distinct, wall
    );
    for (sig, n) in &agg.known_hits {
        println!(
            "KNOWN-FINDING: property={} sig={} hits={} {}",
            id,
            sig,
            n,
            known.known.get(sig).cloned().unwrap_or_default()
        );
    }
    if !violation_lines.is_empty() {
        for (sig, path) in &violation_lines {
            println!("VIOLATION property={} replay={} signature={}", id, path.display(), sig);
        }
        return 1;
    }
    if !agg.harness_errors.is_empty() {
        for e in agg.harness_errors.iter().take(5) {
            println!("HARNESS-ERROR property={} {}", id, e);
        }
        return 2;
    }
    if timed_out || !incomplete.is_empty() {
        println!("TIMEOUT property={} after {}s (workers incomplete: {:?})", id, args.timeout_s, incomplete);
        return 2;
    }
    if !health.is_empty() {
        for h in &health {
            println!("GENERATOR-HEALTH property={} {}", id, h);
        }
        return 2;
    }
    if distinct < 2 {
        println!("GENERATOR-HEALTH property={} fewer than 2 distinct non-trivial cases", id);
        return 2;
    }
    println!("OK property={}", id);
    0
}
