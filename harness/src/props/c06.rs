//! C06 An expired layout is never accepted.

use crate::fw::*;
use crate::gen::keys::*;
use crate::gen::meta::rfc3339_z;
use crate::gen::world::*;
use crate::world::*;
use proptest::prelude::*;
use serde::{Deserialize, Serialize};

pub struct C06;

#[derive(Clone, Debug, Serialize, Deserialize)]
pub struct Spec {
    pub world: World,
    pub owners: Vec<KeySpec>,
    /// expiry = verification instant + delta_ms
    pub delta_ms: i64,
    /// injected clock (unix milliseconds); None = wall clock
    pub clock_ms: Option<i64>,
    /// UTC offset used to spell the expiry, minutes; None = "Z"
    pub offset_min: Option<i16>,
    pub zero_offset_style: u8,
    pub fraction_digits: u8,
    pub lowercase: bool,
    /// put the expiry under test into the first sub-layout instead of the top-level layout
    pub inner: bool,
    /// false: the signer signed the whole-second UTC form and the text was re-spelled afterwards;
    /// true: the signer parsed the re-spelled document with the library and signed what it parsed
    #[serde(default)]
    pub sign_after_parse: bool,
    /// with `inner`: a second functionary is authorised for the delegated step (threshold at most 1) and files an
    /// ordinary, valid link with the content of the delegation's summary - the expired sub-layout is then not needed
    /// to meet the threshold, but it is still reached through delegation
    #[serde(default)]
    pub beside_plain: bool,
}

/// See `Spec::beside_plain`. Returns false (world unchanged) when the delegation has no summary to copy.
fn add_plain_beside(w: &mut World, si: usize) -> bool {
    let f = w.links[si].clone();
    let Body::Sub { world: inner, .. } = &f.body else { return false };
    let link_of = |name: Option<&String>| {
        name.and_then(|n| {
            inner.links.iter().find_map(|l| match &l.body {
                Body::Link { link, .. } if l.step == *n => Some(link.clone()),
                _ => None,
            })
        })
    };
    let (Some(a), Some(b)) = (link_of(inner.layout.steps.first().map(|s| &s.name)), link_of(inner.layout.steps.last().map(|s| &s.name))) else { return false };
    let other = stranger(37);
    if w.layout.keys.iter().any(|k| material(k) == material(&other)) {
        return false;
    }
    let Some(step) = w.layout.steps.iter_mut().find(|s| s.name == f.step) else { return false };
    step.pubkeys.push(other.clone());
    step.threshold = step.threshold.min(1);
    w.layout.keys.push(other.clone());
    let link = crate::gen::meta::LinkSpec {
        name: f.step.clone(),
        materials: a.materials,
        products: b.products,
        env: None,
        byproducts: crate::gen::meta::ByprodSpec { return_value: Some(0), stdout: Some(String::new()), stderr: Some(String::new()), other: Default::default() },
        command: vec![],
    };
    w.links.push(LinkFile { step: f.step.clone(), filed_under: other.clone(), name_field: None, symlink_store: false, body: Body::Link { link, sigs: vec![SigEntry::good(&other)], tamper: None } });
    true
}

const YEAR_9999_END_MS: i64 = 253_402_300_799_000;
const YEAR_0001_START_MS: i64 = -62_135_596_800_000;

/// Render the instant (unix ms) as RFC 3339 text in the requested spelling. Independent of chrono.
pub fn spell_instant(ms: i64, offset_min: Option<i16>, zero_style: u8, digits: u8, lowercase: bool) -> Option<String> {
    let off = offset_min.unwrap_or(0) as i64;
    let local_ms = ms + off * 60_000;
    let secs = local_ms.div_euclid(1000);
    let frac = local_ms.rem_euclid(1000);
    // local year must stay within 0000..9999
    if !(-62_167_219_200..=253_402_300_799).contains(&secs) {
        return None;
    }
    let mut s = rfc3339_z(secs).trim_end_matches('Z').to_string();
    if frac != 0 || digits > 0 {
        let d = if frac != 0 { digits.max(3) } else { digits } as usize;
        let f = format!("{:03}000000", frac);
        s.push('.');
        s.push_str(&f[..d.min(9)]);
    }
    match offset_min {
        None => s.push('Z'),
        Some(0) => s.push_str(match zero_style % 3 {
            0 => "Z",
            1 => "+00:00",
            _ => "-00:00",
        }),
        Some(o) => {
            let a = o.unsigned_abs();
            s.push_str(&format!("{}{:02}:{:02}", if o < 0 { '-' } else { '+' }, a / 60, a % 60));
        }
    }
    if lowercase {
        s = s.replace('T', "t").replace('Z', "z");
    }
    Some(s)
}

fn now_ms() -> i64 {
    chrono::Utc::now().timestamp_millis()
}

fn delta_strategy() -> BoxedStrategy<i64> {
    let y10 = 10 * 365 * 86_400_000i64;
    prop_oneof![
        1 => Just(-y10), 1 => Just(-86_400_000i64), 1 => Just(-3_600_000i64),
        4 => (-3000i64..=-5),
        3 => (-3i64..=3).prop_map(|s| s * 1000),
        2 => (-86_400i64..0).prop_map(|s| s * 1000),
        4 => (5i64..=3000),
        1 => Just(3_600_000i64), 1 => Just(86_400_000i64), 1 => Just(y10),
        1 => Just(-1000i64), 1 => Just(-1i64), 1 => Just(0i64), 1 => Just(1i64), 1 => Just(1000i64),
        1 => (-86_400_000i64..86_400_000),
    ]
    .boxed()
}

/// Replace the value of the (single) top-level `expires` member of a serialised block.
fn replace_expires(text: &str, new_text: &str) -> Option<String> {
    let needle = "\"expires\":\"";
    if text.matches(needle).count() != 1 {
        return None;
    }
    let start = text.find(needle)? + needle.len();
    let end = start + text[start..].find('"')?;
    Some(format!("{}{}{}", &text[..start], new_text, &text[end..]))
}

/// The signer parses the re-spelled document with the library and signs what was parsed.
fn sign_after_parse(text: &str, signers: &[KeySpec]) -> Option<String> {
    let v: serde_json::Value = serde_json::from_str(text).ok()?;
    let raw = serde_json::to_vec(&v["signed"]).ok()?;
    let builder = in_toto::models::MetablockBuilder::from_raw_metadata(&raw).ok()?;
    let sks: Vec<_> = signers.iter().map(private).collect();
    let refs: Vec<&in_toto::crypto::PrivateKey> = sks.iter().map(|k| &**k).collect();
    let block = builder.sign(&refs).ok()?.build();
    serde_json::to_string(&block).ok()
}

impl Property for C06 {
    type Spec = Spec;
    fn id() -> &'static str {
        "C06"
    }
    fn rule() -> String {
        "Generated: otherwise valid worlds (top-level or with a delegated sub-layout, also one that two functionaries of a threshold-2 step file as equal copies of which one expires); expiry = T + delta with delta in {-10y,-1d,-1h, \
         -3s..-5ms, -1ms..+1ms, +5ms..+3s, +1h,+1d,+10y, uniform within a day}; T is the wall clock (hook off) or an injected instant anywhere \
         in 1970..9998; the document's expires text is re-spelled as the same instant, (for delegated sub-layouts in a third of the cases beside a sufficient ordinary link of a second functionary, so that the threshold does not depend on the delegation), either after signing (same whole second as signed, so the \
         signatures stay valid) or before the signer parses and signs it with the library, in a random UTC offset (-23:59..+23:59, Z, +00:00, -00:00), with 0-9 fractional digits, optionally \
         lower-case t/z. History: the same layout, keys and link directory are verified once beforehand with the clock hook set five seconds before the expiry (verdict not judged). Oracle: clock read before (t0) and after (t1) the call; expiry < t0 => result must be Err; expiry in [t0,t1] => \
         straddled, skipped; expiry > t1 => no requirement (rejections counted). Non-trivial: expiry < t0 (or within 3 s after t1) and the \
         control with far-future expiry verifies Ok; distinct by (delta, clock mode, spelling, inner/outer, layout shape)."
            .into()
    }
    fn assumptions() -> Vec<String> {
        vec![
            "the clock hook shadows the wall-clock read of the expiry check; half of the cases run with the hook off".into(),
            "wall-clock cases are limited to |delta| >= 1 ms and to the instants at which the check runs".into(),
        ]
    }
    fn cases(tier: Tier) -> u64 {
        tier.pick(8_000, 150_000)
    }
    fn strategy(_tier: Tier) -> BoxedStrategy<Spec> {
        let outer = valid_world(Cfg { max_steps: 2, max_owners: 1, ..Cfg::basic() });
        let with_sub = valid_world(Cfg { min_steps: 1, max_steps: 2, max_owners: 1, sub_depth: 1, big: true, ..Cfg::basic() });
        (
            // (third arm: two functionaries delegate the step to the same inner supply chain, threshold 2; one copy expires)
            prop_oneof![3 => (outer, Just(false)), 3 => (with_sub, Just(true)), 2 => (valid_world(Cfg { min_steps: 1, max_steps: 2, max_owners: 1, max_threshold: 2, sub_depth: 1, multi_sub: true, ..Cfg::basic() }), Just(true))],
            delta_strategy(),
            prop_oneof![2 => Just(None), 1 => (0i64..YEAR_9999_END_MS - 400 * 86_400_000).prop_map(Some), 1 => (0i64..(YEAR_9999_END_MS - 400 * 86_400_000) / 1000).prop_map(|s| Some(s * 1000))],
            prop_oneof![2 => Just(None), 1 => Just(Some(0i16)), 4 => (-1439i16..1440).prop_map(Some)],
            any::<u8>(),
            prop_oneof![3 => Just(0u8), 2 => 1u8..10],
            any::<bool>(),
            any::<bool>(),
            prop_oneof![2 => Just(false), 1 => Just(true)],
        )
            .prop_map(|(((world, owners), wants_inner), delta_ms, clock_ms, offset_min, zero_offset_style, fraction_digits, lowercase, sign_after_parse, beside_plain)| {
                let inner = wants_inner && world.links.iter().any(|f| matches!(f.body, Body::Sub { .. }));
                Spec { world, owners, delta_ms, clock_ms, offset_min, zero_offset_style, fraction_digits, lowercase, inner, sign_after_parse, beside_plain }
            })
            .boxed()
    }
    fn check(spec: &Spec, env: &mut Env) -> Outcome {
        let mut o = Outcome::new();
        let base = spec.clock_ms.unwrap_or_else(now_ms);
        let expiry_ms = (base + spec.delta_ms).clamp(YEAR_0001_START_MS, YEAR_9999_END_MS);
        let Some(text) = spell_instant(expiry_ms, spec.offset_min, spec.zero_offset_style, spec.fraction_digits, spec.lowercase) else {
            o.class("discarded:local-year-out-of-range");
            return o;
        };
        let signed_secs = expiry_ms.div_euclid(1000);
        let mut w = spec.world.clone();
        // far-future expiry elsewhere; the layout under test gets the whole second that is signed
        let far = 253_402_300_799i64;
        w.layout.expires = far;
        let mut sub_indices = vec![];
        for (i, f) in w.links.iter_mut().enumerate() {
            if let Body::Sub { world, .. } = &mut f.body {
                world.layout.expires = far;
                sub_indices.push(i);
            }
        }
        // which delegated step gets the expiry under test: any of them (layouts may have a dozen steps)
        let sub_index = if sub_indices.is_empty() { None } else { Some(sub_indices[spec.zero_offset_style as usize % sub_indices.len()]) };
        if sub_indices.len() > 8 {
            o.class("more-than-8-delegated-steps");
        }
        let inner = spec.inner && sub_index.is_some();
        let beside = inner && spec.beside_plain && add_plain_beside(&mut w, sub_index.unwrap());
        if inner {
            if let Body::Sub { world, .. } = &mut w.links[sub_index.unwrap()].body {
                world.layout.expires = signed_secs;
            }
        } else {
            w.layout.expires = signed_secs;
        }
        let dir = env.fresh_dir("c06");
        let mut info = write_world(&w, &dir);
        if inner {
            let f = &w.links[sub_index.unwrap()];
            let path = dir.join(format!("{}.{}.link", f.step, prefix8(&f.filed_under)));
            let t = std::fs::read_to_string(&path).expect("read sub-layout");
            let Some(mut t2) = replace_expires(&t, &text) else { panic!("harness: expires member not found once in sub-layout") };
            if spec.sign_after_parse {
                match sign_after_parse(&t2, std::slice::from_ref(&f.filed_under)) {
                    Some(x) => t2 = x,
                    None => {
                        o.class("respelled-layout-rejected-by-parser");
                        let _ = std::fs::remove_dir_all(&dir);
                        return o;
                    }
                }
            }
            std::fs::write(&path, t2).expect("write");
        } else {
            let Some(mut t2) = replace_expires(&info.layout_text, &text) else { panic!("harness: expires member not found once in layout") };
            if spec.sign_after_parse {
                match sign_after_parse(&t2, &spec.owners) {
                    Some(x) => t2 = x,
                    None => {
                        o.class("respelled-layout-rejected-by-parser");
                        let _ = std::fs::remove_dir_all(&dir);
                        return o;
                    }
                }
            }
            info.layout_text = t2;
        }
        if serde_json::from_str::<in_toto::models::Metablock>(&info.layout_text).is_err() {
            o.class("respelled-layout-rejected-by-parser");
            let _ = std::fs::remove_dir_all(&dir);
            return o;
        }
        // history: the very same layout, keys and link directory were verified once before, at an
        // instant five seconds before the expiry (verdict not judged)
        if let Some(early) = chrono::DateTime::from_timestamp_millis(expiry_ms - 5000) {
            in_toto::verif_hooks::set_clock(Some(early));
            let _ = run_verify(&info, &own_ids(&spec.owners), &dir, None);
            in_toto::verif_hooks::set_clock(None);
            o.class("verified-before-while-unexpired");
        }
        in_toto::verif_hooks::set_clock(spec.clock_ms.map(|ms| chrono::DateTime::from_timestamp_millis(ms).expect("instant")));
        let t0 = spec.clock_ms.unwrap_or_else(now_ms);
        let r = run_verify(&info, &own_ids(&spec.owners), &dir, None);
        let t1 = spec.clock_ms.unwrap_or_else(|| now_ms() + 1);
        in_toto::verif_hooks::set_clock(None);
        let _ = std::fs::remove_dir_all(&dir);
        let Some(r) = r else { return o };
        o.class(if spec.clock_ms.is_some() { "clock:injected" } else { "clock:wall" });
        o.class(if inner { "layout:inner" } else { "layout:top" });
        if beside {
            o.class("inner-beside-sufficient-plain-link");
        }
        o.class(if spec.sign_after_parse { "signed:after-parse" } else { "signed:before-respelling" });
        o.class(match spec.offset_min {
            None => "offset:Z",
            Some(0) => "offset:zero",
            Some(_) => "offset:nonzero",
        });
        if spec.fraction_digits > 0 || expiry_ms.rem_euclid(1000) != 0 {
            o.class("fraction");
        }
        let near = spec.delta_ms.abs() <= 3000;
        if near {
            o.class("delta:within-3s");
        }
        // For wall-clock runs the expiry was placed relative to `base`, read before t0.
        let expired = expiry_ms < t0;
        let straddled = !expired && expiry_ms <= t1 && spec.clock_ms.is_none();
        if straddled {
            o.class("straddled");
            return o;
        }
        if expired {
            o.class("expired");
            if r.is_ok() {
                o.fail(format!("C06/accepted-expired/{}/{}{}", if beside { "inner-beside-sufficient-plain-link" } else if inner { "inner" } else { "top" }, if spec.clock_ms.is_some() { "injected-clock" } else { "wall-clock" },
                        if spec.offset_min.map(|x| x != 0).unwrap_or(false) { "/offset" } else { "" }),
                    format!("in_toto_verify = Ok with expires {:?} = {} ms, verification instant {} ms", text, expiry_ms, t0), "Err: layout expired");
            }
        } else {
            o.class("unexpired");
            if r.is_err() {
                o.class("unexpired-rejected");
            }
        }
        if expired || near {
            // control: same world, far-future expiry everywhere
            let mut c = spec.world.clone();
            c.layout.expires = far;
            for f in c.links.iter_mut() {
                if let Body::Sub { world, .. } = &mut f.body {
                    world.layout.expires = far;
                }
            }
            if beside {
                add_plain_beside(&mut c, sub_index.unwrap());
            }
            let cdir = env.fresh_dir("c06c");
            in_toto::verif_hooks::set_clock(spec.clock_ms.map(|ms| chrono::DateTime::from_timestamp_millis(ms).expect("instant")));
            let (cr, _, _) = run_world(&c, &spec.owners, &cdir, t0 / 1000);
            in_toto::verif_hooks::set_clock(None);
            let _ = std::fs::remove_dir_all(&cdir);
            o.evals = 2;
            if matches!(cr, Some(Ok(_))) {
                o.nontrivial(format!("{}|{}|{:?}|{}|{}|{}|{}|{}", spec.delta_ms, spec.clock_ms.is_some(), spec.offset_min, spec.fraction_digits, spec.lowercase, inner, spec.world.layout.steps.len(), spec.sign_after_parse));
            } else {
                o.class("control-not-ok");
            }
        }
        o
    }
    fn nontrivial_floor() -> f64 {
        0.3
    }
    fn class_floors() -> Vec<(&'static str, f64)> {
        vec![("delta:within-3s", 0.3), ("clock:wall", 0.3), ("layout:inner", 0.1), ("expired", 0.25)]
    }
}
