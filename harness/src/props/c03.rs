//! C03 Artifact rules are enforced exactly as the in-toto specification prescribes.

use std::collections::{BTreeMap, HashMap};

use crate::fw::*;
use crate::gen::meta::*;
use crate::model::rules::*;
use in_toto::models::supply_chain_item::SupplyChainItem;
use in_toto::models::LinkMetadata;
use in_toto::verif_hooks::apply_rules;
use proptest::prelude::*;
use serde::{Deserialize, Serialize};

pub struct C03;

#[derive(Clone, Debug, Serialize, Deserialize)]
pub struct Spec {
    pub inspection: bool,
    pub name: String,
    pub expected_materials: Vec<RuleSpec>,
    pub expected_products: Vec<RuleSpec>,
    pub materials: Artifacts,
    pub products: Artifacts,
    /// other items' evidence: name -> (materials, products)
    pub others: Vec<(String, Artifacts, Artifacts)>,
}

pub const UNINTERPRETABLE: &[&str] = &["[", "a[", "[a", "a**b", "***", "**a", "[!", "src/**x"];

/// artifacts related to each other: derived from a common pool so that equal paths,
/// equal and different digests, and shifted prefixes are all frequent
fn related_artifacts() -> BoxedStrategy<(Artifacts, Artifacts, Vec<(String, Artifacts, Artifacts)>)> {
    let base = proptest::collection::btree_map(relpath(), digests(true), 0..5);
    // cardinality tail: the item under verification additionally records many vendored files
    let many = prop_oneof![30 => Just(0usize), 1 => prop_oneof![Just(15usize), Just(16), Just(31), Just(32), Just(33), Just(64), Just(100), Just(300)]];
    (base, proptest::collection::vec((any::<u8>(), any::<u8>(), digests(true), proptest::option::weighted(0.4, prefix())), 0..8), 0usize..3, many)
        .prop_map(|(pool, picks, nothers, many)| {
            let pool_v: Vec<(String, Digests)> = pool.into_iter().collect();
            let mut sets: Vec<Artifacts> = vec![Artifacts::new(); 2 + 2 * nothers];
            // every pool artifact goes into a random subset of the sets
            for (i, (p, d)) in pool_v.iter().enumerate() {
                for (s, set) in sets.iter_mut().enumerate() {
                    let bit = picks.get((i + s) % picks.len().max(1)).map(|x| (x.0 >> (s % 8)) & 1 == 1).unwrap_or(s < 2);
                    if bit {
                        set.insert(p.clone(), d.clone());
                    }
                }
            }
            // variations: changed digest, shifted prefix
            for (k, (a, b, d, pre)) in picks.iter().enumerate() {
                if pool_v.is_empty() {
                    break;
                }
                let (p, orig) = &pool_v[*a as usize % pool_v.len()];
                let target = *b as usize % sets.len();
                let path = match pre {
                    Some(pre) if k % 3 == 2 => format!("{}{}", pre, p), // glued: starts with the prefix string without being inside it
                    Some(pre) => format!("{}/{}", pre, p),
                    None => p.clone(),
                };
                // (every fifth variation: the original digest values cut to their first half - a proper prefix is not equality)
                let dig = if k % 5 == 4 {
                    orig.iter().map(|(alg, v)| (alg.clone(), v[..(v.len() / 2) & !1].to_string())).collect()
                } else if k % 2 == 0 {
                    orig.clone()
                } else {
                    d.clone()
                };
                sets[target].insert(path, dig);
            }
            if many > 0 {
                let d: Digests = [("sha256".to_string(), DIGEST_POOL_256[0].to_string())].into();
                let side = picks.first().map(|x| x.0 % 3).unwrap_or(0);
                for i in 0..many {
                    if side != 1 {
                        sets[0].insert(format!("vendor/dep{:03}", i), d.clone());
                    }
                    if side != 0 {
                        sets[1].insert(format!("vendor/dep{:03}", i), d.clone());
                    }
                }
            }
            let mut it = sets.into_iter();
            let m = it.next().unwrap();
            let p = it.next().unwrap();
            let mut others = vec![];
            for i in 0..nothers {
                others.push((format!("s{}", i + 1), it.next().unwrap(), it.next().unwrap()));
            }
            (m, p, others)
        })
        .boxed()
}

/// A scenario built around one MATCH rule: exactly one own artifact that satisfies all of the
/// rule's conditions (kind 0) or misses exactly one of them, followed by DISALLOW *.
fn match_scenario() -> BoxedStrategy<Spec> {
    (
        proptest::option::weighted(0.7, prefix()),
        proptest::option::weighted(0.5, prefix()),
        relpath(),
        0usize..3,
        0u8..12,
        0u8..3,
        any::<bool>(),
        any::<bool>(),
        // cardinality tail: the item records many further (vendored) files, allowed by a rule of their own
        prop_oneof![12 => Just(0usize), 1 => prop_oneof![Just(15usize), Just(16), Just(17), Just(32), Just(33), Just(64), Just(300)]],
    )
        .prop_map(|(src, dst, q, dig, kind, pat, own_products, with_products, many)| {
            let d: Digests = [("sha256".to_string(), DIGEST_POOL_256[dig].to_string())].into();
            let d_other: Digests = [("sha256".to_string(), DIGEST_POOL_256[(dig + 1) % 3].to_string())].into();
            let join = |pre: &Option<String>, rest: &str| match pre {
                Some(p) => format!("{}/{}", p, rest),
                None => rest.to_string(),
            };
            let glue = |pre: &Option<String>, rest: &str| match pre {
                Some(p) => format!("{}{}", p, rest),
                None => format!("x{}", rest),
            };
            // own artifact and the destination artifact that a *wrong* implementation would pair it with
            let (own_path, dest_path, dest_digest, dest_on_right_side, dest_step) = match kind {
                0 | 9 => (join(&src, &q), join(&dst, &q), d.clone(), true, "s1"),
                1 => (glue(&src, &q), join(&dst, &q), d.clone(), true, "s1"),
                2 => (glue(&src, &format!("2/{}", q)), join(&dst, &format!("2/{}", q)), d.clone(), true, "s1"),
                3 => (q.clone(), join(&dst, &q), d.clone(), true, "s1"),
                4 => (join(&src, &q), join(&dst, &q), d_other.clone(), true, "s1"),
                5 => (join(&src, &q), join(&dst, &q), d.clone(), false, "s1"),
                6 => (join(&src, &q), join(&dst, &q), d.clone(), true, "s2"),
                7 => (join(&src, &format!("{}.other", q)), join(&dst, &format!("{}.other", q)), d.clone(), true, "s1"),
                // the destination artifact lies outside the destination prefix altogether / under the doubled prefix
                10 => (join(&src, &q), q.clone(), d.clone(), true, "s1"),
                11 => (join(&src, &q), join(&dst, &join(&dst, &q)), d.clone(), true, "s1"),
                _ => (join(&src, &q), glue(&dst, &q), d.clone(), true, "s1"),
            };
            let pattern = match pat {
                0 => "*".to_string(),
                1 => q.clone(),
                _ => {
                    let mut c: Vec<char> = q.chars().collect();
                    let n = c.len();
                    c[n - 1] = '?';
                    c.into_iter().collect()
                }
            };
            let mut own: Artifacts = [(own_path, d.clone())].into();
            for i in 0..many {
                own.insert(format!("vendor/dep{:03}", i), d_other.clone());
            }
            let dest: Artifacts = [(dest_path, dest_digest)].into();
            let side_products = if dest_on_right_side { with_products } else { !with_products };
            let mk = |name: &str| {
                if name == dest_step {
                    if side_products {
                        (name.to_string(), Artifacts::new(), dest.clone())
                    } else {
                        (name.to_string(), dest.clone(), Artifacts::new())
                    }
                } else {
                    (name.to_string(), Artifacts::new(), Artifacts::new())
                }
            };
            let mut rules = vec![RuleSpec::Match { pattern, in_src: src.clone(), products: with_products, in_dst: dst.clone(), from: "s1".into() }];
            if many > 0 {
                rules.push(RuleSpec::Allow("vendor/*".into()));
            }
            rules.push(RuleSpec::Disallow("*".into()));
            Spec {
                inspection: false,
                name: "item".into(),
                expected_materials: if own_products { vec![] } else { rules.clone() },
                expected_products: if own_products { rules } else { vec![] },
                materials: if own_products { Artifacts::new() } else { own.clone() },
                products: if own_products { own } else { Artifacts::new() },
                others: vec![mk("s1"), mk("s2")],
            }
        })
        .boxed()
}

fn rule_list(names: Vec<String>) -> BoxedStrategy<Vec<RuleSpec>> {
    let plain = rules(names.clone(), 5);
    let with_bad_disallow = (rules(names, 3), 0..UNINTERPRETABLE.len(), any::<prop::sample::Index>()).prop_map(|(mut r, u, at)| {
        let i = at.index(r.len() + 1);
        r.insert(i, RuleSpec::Disallow(UNINTERPRETABLE[u].to_string()));
        r
    });
    prop_oneof![9 => plain, 1 => with_bad_disallow].boxed()
}

struct Item {
    name: String,
    m: Vec<in_toto::models::rule::ArtifactRule>,
    p: Vec<in_toto::models::rule::ArtifactRule>,
}

impl SupplyChainItem for Item {
    fn name(&self) -> &str {
        &self.name
    }
    fn expected_materials(&self) -> &Vec<in_toto::models::rule::ArtifactRule> {
        &self.m
    }
    fn expected_products(&self) -> &Vec<in_toto::models::rule::ArtifactRule> {
        &self.p
    }
}

pub fn link_of(name: &str, m: &Artifacts, p: &Artifacts) -> LinkMetadata {
    LinkSpec { name: name.to_string(), materials: m.clone(), products: p.clone(), ..Default::default() }.to_lib()
}

pub fn deviation_class(spec: &Spec, reference: &Verdict, lib_ok: bool) -> String {
    let kinds: std::collections::BTreeSet<&str> = spec.expected_materials.iter().chain(spec.expected_products.iter()).map(|r| r.kind()).collect();
    let has_bad = spec.expected_materials.iter().chain(spec.expected_products.iter()).any(|r| matches!(r, RuleSpec::Disallow(p) if glob_uninterpretable(p)));
    let has_match = kinds.contains("MATCH");
    let has_src = spec.expected_materials.iter().chain(spec.expected_products.iter()).any(|r| matches!(r, RuleSpec::Match { in_src: Some(_), .. }));
    let dir = if lib_ok { "library-accepts-reference-rejects" } else { "library-rejects-reference-accepts" };
    let cause = if has_bad && matches!(reference, Verdict::Reject(r) if r.contains("cannot be interpreted")) {
        "uninterpretable-disallow".to_string()
    } else if has_match {
        if has_src { "with-match-src-prefix".to_string() } else { "with-match".to_string() }
    } else {
        kinds.into_iter().collect::<Vec<_>>().join("+")
    };
    format!("C03/{}/{}", dir, cause)
}

pub fn evaluate(spec: &Spec) -> (Verdict, Result<(), String>) {
    let mut links_ref: BTreeMap<String, LinkArtifacts> = BTreeMap::new();
    let mut links_lib: HashMap<String, LinkMetadata> = HashMap::new();
    for (n, m, p) in &spec.others {
        links_ref.insert(n.clone(), LinkArtifacts { materials: m.clone(), products: p.clone() });
        links_lib.insert(n.clone(), link_of(n, m, p));
    }
    links_ref.insert(spec.name.clone(), LinkArtifacts { materials: spec.materials.clone(), products: spec.products.clone() });
    links_lib.insert(spec.name.clone(), link_of(&spec.name, &spec.materials, &spec.products));
    let reference = spec_rules(&spec.name, &spec.expected_materials, &spec.expected_products, &links_ref);
    let item: Box<dyn SupplyChainItem> = Box::new(Item {
        name: spec.name.clone(),
        m: spec.expected_materials.iter().map(|r| r.to_lib()).collect(),
        p: spec.expected_products.iter().map(|r| r.to_lib()).collect(),
    });
    let lib = apply_rules(&item, &links_lib).map_err(|e| e.to_string());
    (reference, lib)
}

fn fingerprint_bit(spec: &Spec) -> bool {
    // deterministic 1-in-32 selection
    let mut h: u32 = 2166136261;
    for b in format!("{:?}", spec).bytes() {
        h = (h ^ b as u32).wrapping_mul(16777619);
    }
    h % 32 == 0
}

/// The same item inside a complete, otherwise valid world; None when a name is unusable.
fn end_to_end(spec: &Spec, env: &mut Env) -> Option<Result<in_toto::models::Metablock, String>> {
    use crate::gen::keys::KeySpec;
    use crate::world::*;
    let owner = KeySpec::Ed { seed: 90, pkcs8: true };
    let mut steps = vec![];
    let mut links = vec![];
    let mut keys = vec![];
    let mut all: Vec<(String, Artifacts, Artifacts, Vec<RuleSpec>, Vec<RuleSpec>)> =
        spec.others.iter().map(|(n, m, p)| (n.clone(), m.clone(), p.clone(), vec![], vec![])).collect();
    all.push((spec.name.clone(), spec.materials.clone(), spec.products.clone(), spec.expected_materials.clone(), spec.expected_products.clone()));
    for (i, (name, m, p, em, ep)) in all.iter().enumerate() {
        let k = KeySpec::Ed { seed: 91 + i as u8, pkcs8: true };
        keys.push(k.clone());
        steps.push(StepSpec { name: name.clone(), threshold: 1, pubkeys: vec![k.clone()], expected_command: vec![], expected_materials: em.clone(), expected_products: ep.clone() });
        links.push(LinkFile {
            step: name.clone(),
            filed_under: k.clone(),
            name_field: None, symlink_store: false,
            body: Body::Link { link: LinkSpec { name: name.clone(), materials: m.clone(), products: p.clone(), ..Default::default() }, sigs: vec![SigEntry::good(&k)], tamper: None },
        });
    }
    let w = World { layout: LayoutSpec { expires: 4_000_000_000, readme: String::new(), keys, steps, inspect: vec![] }, sigs: vec![SigEntry::good(&owner)], tamper: None, links };
    let dir = env.fresh_dir("c03e");
    let info = write_world(&w, &dir);
    let r = run_verify(&info, &own_ids(&[owner]), &dir, None);
    let _ = std::fs::remove_dir_all(&dir);
    r
}

fn small_rules() -> Vec<RuleSpec> {
    let pats = ["*", "a", "b", "a*"];
    let mut v = vec![];
    for p in pats {
        v.push(RuleSpec::Create(p.into()));
        v.push(RuleSpec::Delete(p.into()));
        v.push(RuleSpec::Modify(p.into()));
        v.push(RuleSpec::Allow(p.into()));
        v.push(RuleSpec::Require(p.into()));
        v.push(RuleSpec::Disallow(p.into()));
        v.push(RuleSpec::Match { pattern: p.into(), in_src: None, products: true, in_dst: None, from: "s1".into() });
    }
    v.push(RuleSpec::Match { pattern: "*".into(), in_src: Some("d".into()), products: true, in_dst: None, from: "s1".into() });
    v.push(RuleSpec::Match { pattern: "*".into(), in_src: None, products: false, in_dst: Some("d".into()), from: "s1".into() });
    v.push(RuleSpec::Disallow("[".into()));
    v
}

impl Property for C03 {
    type Spec = Spec;
    fn id() -> &'static str {
        "C03"
    }
    fn rule() -> String {
        "Generated: an item (step or inspection) with ordered rule lists (0-5 material rules, 0-5 product rules) over all seven kinds, \
         MATCH with/without IN source and destination prefixes, WITH materials/products, FROM present or absent step; its link with \
         materials/products drawn from a common pool so that created, deleted, modified, unchanged artifacts and nested paths all occur; 0-2 \
         referenced links with equal/different digests and shifted prefixes; normalised relative paths, portable glob patterns; separate \
         classes: a DISALLOW rule whose pattern the matcher cannot interpret; MATCH scenarios in which one artifact satisfies all of a MATCH \
         rule's conditions or misses exactly one (glued to the prefix string without a separator, sibling directory, outside the source \
         prefix, other digest, other side, other step, pattern mismatch, glued destination), followed by DISALLOW *. Enumerated: all rule lists of length <=2 (quick) / <=3 \
         (thorough, product side) over a 31-rule alphabet on a fixed artifact configuration (incl. a path that merely starts with a prefix string). Oracle: differential against the \
         reference rule engine transcribed from the specification (self-tested on the Python-made demo chain), both directions; via the \
         guarded re-export of the per-item rule application, and for one case in 32 additionally end to end (the item embedded in a \
         complete signed world and run through in_toto_verify without any hook). Non-trivial: at least one rule present and (the reference rejects, or a MATCH \
         with a prefix occurs, or some rule matches while artifacts remain in the queue); distinct by the whole case."
            .into()
    }
    fn assumptions() -> Vec<String> {
        vec![
            "reference engine is the harness' transcription of the specification (Appendix A of DESIGN.md), self-tested against the Python-made fixtures".into(),
            "paths normalised and relative, prefixes without trailing slash, patterns in the portable subset (*, ?, [set], [a-z], [!set])".into(),
            "an uninterpretable DISALLOW pattern that is never evaluated (empty queue) is unspecified and skipped".into(),
        ]
    }
    fn cases(tier: Tier) -> u64 {
        tier.pick(900_000, 5_000_000)
    }
    fn strategy(_tier: Tier) -> BoxedStrategy<Spec> {
        let general = (any::<bool>(), related_artifacts())
            .prop_flat_map(|(inspection, (materials, products, others))| {
                let mut names: Vec<String> = others.iter().map(|o| o.0.clone()).collect();
                names.push("item".to_string());
                (rule_list(names.clone()), rule_list(names)).prop_map(move |(expected_materials, expected_products)| Spec {
                    inspection,
                    name: "item".into(),
                    expected_materials,
                    expected_products,
                    materials: materials.clone(),
                    products: products.clone(),
                    others: others.clone(),
                })
            })
            .boxed();
        prop_oneof![8 => general, 2 => match_scenario()].boxed()
    }
    fn enumerate(tier: Tier, worker: usize, workers: usize) -> Box<dyn Iterator<Item = Spec>> {
        let d1: Digests = [("sha256".to_string(), DIGEST_POOL_256[0].to_string())].into();
        let d2: Digests = [("sha256".to_string(), DIGEST_POOL_256[1].to_string())].into();
        // own link: a unchanged-but-modified, b created, d/a deleted
        let materials: Artifacts = [("a".to_string(), d1.clone()), ("d/a".to_string(), d1.clone())].into();
        let products: Artifacts = [("a".to_string(), d2.clone()), ("b".to_string(), d1.clone()), ("da".to_string(), d2.clone())].into();
        let others = vec![("s1".to_string(), [("d/a".to_string(), d1.clone())].into(), [("a".to_string(), d2.clone()), ("b".to_string(), d2.clone())].into())];
        let alphabet = small_rules();
        let n = alphabet.len();
        let depth = tier.pick(2usize, 3usize);
        let mut lists: Vec<Vec<usize>> = vec![vec![]];
        let mut frontier: Vec<Vec<usize>> = vec![vec![]];
        for _ in 0..depth {
            let mut next = vec![];
            for l in &frontier {
                for i in 0..n {
                    let mut l2 = l.clone();
                    l2.push(i);
                    next.push(l2);
                }
            }
            lists.extend(next.iter().cloned());
            frontier = next;
        }
        let it = lists.into_iter().enumerate().filter(move |(i, _)| i % workers == worker).flat_map(move |(_, l)| {
            let rules: Vec<RuleSpec> = l.iter().map(|i| alphabet[*i].clone()).collect();
            let a = Spec { inspection: false, name: "item".into(), expected_materials: vec![], expected_products: rules.clone(), materials: materials.clone(), products: products.clone(), others: others.clone() };
            let b = Spec { expected_materials: rules, expected_products: vec![], ..a.clone() };
            vec![a, b]
        });
        Box::new(it)
    }
    fn enumeration_exhaustive(tier: Tier) -> Option<String> {
        Some(format!("all rule lists of length <= {} over a 31-rule alphabet (7 kinds x 4 patterns + 2 prefixed MATCH + 1 uninterpretable DISALLOW), as material rules and as product rules, on one fixed artifact configuration", tier.pick(2, 3)))
    }
    fn concurrent() -> bool {
        true
    }
    fn check(spec: &Spec, _env: &mut Env) -> Outcome {
        let mut o = Outcome::new();
        let (reference, lib) = evaluate(spec);
        let all: Vec<&RuleSpec> = spec.expected_materials.iter().chain(spec.expected_products.iter()).collect();
        for r in &all {
            o.class(format!("rule:{}", r.kind()));
        }
        let has_prefix = all.iter().any(|r| matches!(r, RuleSpec::Match { in_src: Some(_), .. } | RuleSpec::Match { in_dst: Some(_), .. }));
        match &reference {
            Verdict::Unspecified(_) => {
                o.class("reference:unspecified");
                return o;
            }
            Verdict::Accept => o.class("reference:accept"),
            Verdict::Reject(_) => o.class("reference:reject"),
        }
        let rejects = matches!(reference, Verdict::Reject(_));
        let some_match = all.iter().any(|r| {
            spec.materials.keys().chain(spec.products.keys()).any(|p| fnmatch(r.pattern(), p) == Some(true))
        });
        if !all.is_empty() && (rejects || has_prefix || some_match) {
            o.nontrivial(format!("{:?}", spec));
        }
        let lib_ok = lib.is_ok();
        // tie the hook to the real call path: a share of the cases is embedded in a complete world
        // (signed layout, one functionary and one signed link per step) and run through in_toto_verify
        if spec.materials.len() + spec.products.len() + all.len() <= 8 && fingerprint_bit(spec) {
            o.class("end-to-end");
            o.evals += 1;
            let e2e = end_to_end(spec, _env);
            match e2e {
                None => o.class("end-to-end:not-buildable"),
                Some(r) => {
                    if r.is_ok() != reference.is_accept() {
                        o.fail(
                            format!("{}/end-to-end", deviation_class(spec, &reference, r.is_ok())),
                            format!("in_toto_verify: {:?}; reference: {:?}", r.map(|_| ()), reference),
                            "same decision as the reference rule engine on a world in which nothing else can fail",
                        );
                    }
                }
            }
        }
        if lib_ok != reference.is_accept() {
            o.fail(
                deviation_class(spec, &reference, lib_ok),
                format!("library: {:?}; reference: {:?}", lib, reference),
                format!("same decision; case: materials rules {:?}, product rules {:?}, materials {:?}, products {:?}, others {:?}",
                    spec.expected_materials, spec.expected_products, spec.materials.keys().collect::<Vec<_>>(), spec.products.keys().collect::<Vec<_>>(),
                    spec.others.iter().map(|x| (&x.0, x.1.keys().collect::<Vec<_>>(), x.2.keys().collect::<Vec<_>>())).collect::<Vec<_>>()),
            );
        }
        o
    }
    fn selftest(_env: &mut Env) -> Result<(), String> {
        crate::model::rules::selftest()
    }
    fn nontrivial_floor() -> f64 {
        0.4
    }
    fn class_floors() -> Vec<(&'static str, f64)> {
        vec![("reference:reject", 0.25), ("reference:accept", 0.1)]
    }
}
