//! C09 Whatever the library signs verifies again after a trip through the wire format.

use crate::fw::*;
use crate::gen::keys::*;
use crate::model::cjson::olpc_value;
use crate::model::keyid::hex;
use crate::props::c11::{doc_strategy, interesting, Doc};
use in_toto::crypto::{PublicKey, Signature, SignatureScheme};
use in_toto::interchange::{DataInterchange, Json, JsonPretty};
use in_toto::models::{Metablock, MetablockBuilder};
use proptest::prelude::*;
use serde::{Deserialize, Serialize};
use serde_json::json;

pub struct C09;

#[derive(Clone, Copy, Debug, Serialize, Deserialize, PartialEq, Eq)]
pub enum Path {
    New,
    Builder,
    BuilderRaw,
    /// `MetablockBuilder::from_raw_metadata` over a document as another implementation writes it: pretty-printed,
    /// optional null members absent, expiry spelled with a numeric UTC offset
    BuilderRawForeign,
}

#[derive(Clone, Copy, Debug, Serialize, Deserialize, PartialEq, Eq)]
pub enum Wire {
    Compact,
    Pretty,
    JsonWriter,
    JsonPrettyWriter,
}

#[derive(Clone, Debug, Serialize, Deserialize)]
pub struct Spec {
    pub doc: Doc,
    pub signers: Vec<KeySpec>,
    pub path: Path,
    pub wire: Wire,
    pub flips: Vec<u16>,
    pub unrelated_seed: u8,
}

fn sig_json(keyid: &str, bytes: &[u8]) -> Signature {
    serde_json::from_value(json!({"keyid": keyid, "sig": hex(bytes)})).expect("sig json")
}

pub fn spki_of(k: &KeySpec) -> Option<Vec<u8>> {
    match k {
        KeySpec::Rsa { idx, .. } => Some(crate::model::keyid::rsa_spki(*idx)),
        _ => None,
    }
}

impl Property for C09 {
    type Spec = Spec;
    fn id() -> &'static str {
        "C09"
    }
    fn rule() -> String {
        "Generated: layouts/links with Unicode text in every string field (same generator as C11), 1-3 signers over all key types and \
         schemes, construction path in {Metablock::new, MetablockBuilder::from_metadata().sign().build(), from_raw_metadata over the library's own serialisation, from_raw_metadata over a foreign spelling of the document (pretty-printed, null environment absent, expiry with +00:00)}, wire form in \
         {serde_json compact, pretty, Json::to_writer, JsonPretty::to_writer}. (one case in eleven: the two signers are one RSA key pair under both of its schemes). Oracle: parse(wire).verify(n, signers) = Ok; verify(1,[unrelated \
         key]) = Err; for sampled single-bit flips of each signature value both PublicKey::verify and block verify = Err; the same key \
         material declared with another scheme (RSA pss-sha256<->pss-sha512, Ed25519 bytes declared as ECDSA) rejects the signature. \
         Non-trivial: content has an escape-relevant character, or a non-Ed25519 scheme, or >=2 signers; distinct by (doc, signer kinds, path, wire)."
            .into()
    }
    fn assumptions() -> Vec<String> {
        vec!["ring's verification is sound".into(), "bit flips are sampled (quick) – all positions only in thorough for Ed25519".into()]
    }
    fn cases(tier: Tier) -> u64 {
        tier.pick(80_000, 300_000)
    }
    fn strategy(tier: Tier) -> BoxedStrategy<Spec> {
        let nflips = tier.pick(3usize, 8usize);
        (
            doc_strategy(true),
            prop_oneof![6 => distinct_keys(1, 3, true), 4 => distinct_keys(1, 2, false),
                // one RSA key pair used under both of its signature schemes: two signers, two key ids
                1 => (0..RSA_POOL.len(), any::<bool>()).prop_map(|(idx, first512)| vec![KeySpec::Rsa { idx, sha512: first512 }, KeySpec::Rsa { idx, sha512: !first512 }])],
            prop_oneof![Just(Path::New), Just(Path::Builder), Just(Path::BuilderRaw), Just(Path::BuilderRawForeign)],
            prop_oneof![Just(Wire::Compact), Just(Wire::Pretty), Just(Wire::JsonWriter), Just(Wire::JsonPrettyWriter)],
            proptest::collection::vec(any::<u16>(), 1..=nflips),
            100u8..120,
        )
            .prop_map(|(doc, signers, path, wire, flips, unrelated_seed)| Spec { doc, signers, path, wire, flips, unrelated_seed })
            .boxed()
    }
    fn concurrent() -> bool {
        true
    }
    fn check(spec: &Spec, env: &mut Env) -> Outcome {
        let mut o = Outcome::new();
        let meta = spec.doc.to_lib();
        let sks: Vec<_> = spec.signers.iter().map(private).collect();
        let refs: Vec<&in_toto::crypto::PrivateKey> = sks.iter().map(|k| &**k).collect();
        let rich = spec.doc.strings().iter().any(|s| interesting(s));
        let non_ed = spec.signers.iter().any(|k| !k.is_deterministic());
        if rich || non_ed || spec.signers.len() >= 2 {
            let kinds: Vec<&str> = spec.signers.iter().map(|k| k.kind()).collect();
            o.nontrivial(format!("{:?}|{:?}|{:?}|{:?}", spec.doc, kinds, spec.path, spec.wire));
        }
        o.class(format!("path:{:?}", spec.path));
        o.class(format!("wire:{:?}", spec.wire));
        for k in &spec.signers {
            o.class(format!("key:{}", k.kind()));
        }
        let block = match spec.path {
            Path::New => Metablock::new(meta.clone(), &refs),
            Path::Builder => MetablockBuilder::from_metadata(meta.clone().into_trait()).sign(&refs).map(|b| b.build()),
            Path::BuilderRaw => {
                let raw = serde_json::to_vec(&meta).expect("ser");
                match MetablockBuilder::from_raw_metadata(&raw) {
                    Ok(b) => b.sign(&refs).map(|b| b.build()),
                    Err(e) => {
                        o.fail("C09/from_raw_metadata/rejects-own-serialisation", format!("{}", e), "a builder");
                        return o;
                    }
                }
            }
            Path::BuilderRawForeign => {
                let mut d = match &spec.doc {
                    Doc::Link(l) => l.to_wire(),
                    Doc::Layout(l) => l.to_wire(),
                };
                if let Some(m) = d.as_object_mut() {
                    if m.get("environment") == Some(&serde_json::Value::Null) {
                        m.remove("environment");
                    }
                    if let Some(e) = m.get("expires").and_then(|e| e.as_str()).map(|e| e.to_string()) {
                        if e.ends_with('Z') {
                            m.insert("expires".into(), serde_json::json!(format!("{}+00:00", e.trim_end_matches('Z'))));
                        }
                    }
                }
                let raw = serde_json::to_vec_pretty(&d).expect("ser");
                match MetablockBuilder::from_raw_metadata(&raw) {
                    Ok(b) => b.sign(&refs).map(|b| b.build()),
                    Err(_) => {
                        // whether such a document parses is C16/C17's business
                        o.class("foreign-raw-document-rejected");
                        return o;
                    }
                }
            }
        };
        let block = match block {
            Ok(b) => b,
            Err(e) => {
                o.fail("C09/sign/error", format!("{}", e), "a signed block");
                return o;
            }
        };
        let wire: Vec<u8> = match spec.wire {
            Wire::Compact => serde_json::to_vec(&block).expect("ser"),
            Wire::Pretty => serde_json::to_vec_pretty(&block).expect("ser"),
            Wire::JsonWriter => {
                let mut b = vec![];
                if let Err(e) = Json::to_writer(&mut b, &block) {
                    o.fail("C09/wire/Json-to_writer-error", format!("{}", e), "bytes");
                    return o;
                }
                b
            }
            Wire::JsonPrettyWriter => {
                let mut b = vec![];
                if let Err(e) = JsonPretty::to_writer(&mut b, &block) {
                    o.fail("C09/wire/JsonPretty-to_writer-error", format!("{}", e), "bytes");
                    return o;
                }
                b
            }
        };
        let back: Metablock = match serde_json::from_slice(&wire) {
            Ok(b) => b,
            Err(e) => {
                o.fail("C09/wire/does-not-parse-back", format!("{} in {:?}", e, String::from_utf8_lossy(&wire)), "the block");
                return o;
            }
        };
        // what the library wrote it must also be able to read through its own entry points (slice and streaming reader)
        if wire.len() > 65536 {
            o.class("wire-document-larger-than-64KiB");
        }
        for (name, r) in [
            ("Json::from_slice", Json::from_slice::<Metablock>(&wire).map_err(|e| e.to_string())),
            ("Json::from_reader", Json::from_reader::<_, Metablock>(std::io::Cursor::new(&wire)).map_err(|e| e.to_string())),
            ("JsonPretty::from_reader", JsonPretty::from_reader::<_, Metablock>(&wire[..]).map_err(|e| e.to_string())),
        ] {
            match r {
                Ok(b) if b == back => {}
                Ok(_) => o.fail(format!("C09/wire/{}-reads-another-value", name), format!("{} bytes", wire.len()), "the same block as serde_json::from_slice"),
                Err(e) => o.fail(format!("C09/wire/{}-cannot-read-own-output", name), format!("{} ({} bytes written by {:?})", e, wire.len(), spec.wire), "the block"),
            }
        }
        let pubs: Vec<PublicKey> = spec.signers.iter().map(public).collect();
        let n = pubs.len() as u32;
        if let Err(e) = back.verify(n, pubs.iter()) {
            o.fail(format!("C09/verify/own-signature-rejected/{:?}", spec.path),
                format!("verify({}, signers) after {:?} wire trip: {}", n, spec.wire, e), "Ok");
            return o;
        }
        // the same keys handed over through an iterator that does not know its length in advance (the parameter is any
        // IntoIterator of key references)
        if let Err(e) = back.verify(n, pubs.iter().filter(|_| true)) {
            o.fail(format!("C09/verify/own-signature-rejected-through-lazy-iterator/{:?}", spec.path),
                format!("verify({}, signers.iter().filter(..)) after {:?} wire trip: {}", n, spec.wire, e), "Ok, as with a slice iterator");
            return o;
        }
        if back.metadata != meta {
            o.class("metadata-changed-in-roundtrip");
        }
        // unrelated key
        let unrelated = public(&KeySpec::Ed { seed: spec.unrelated_seed, pkcs8: true });
        if back.verify(1, [&unrelated]).is_ok() {
            o.fail("C09/verify/accepts-unrelated-key", "verify(1,[unrelated]) = Ok", "Err");
        }
        // relabel: signature of signer 0 labelled with the unrelated key's id
        let s0 = &back.signatures[0];
        let s0_key = spec.signers.iter().position(|k| key_id(k) == *s0.key_id()).unwrap_or(0);
        let relabeled = Metablock {
            signatures: vec![sig_json(&serde_json::to_value(unrelated.key_id()).unwrap().as_str().unwrap().to_string(), s0.value().as_bytes())],
            metadata: back.metadata.clone(),
        };
        if relabeled.verify(1, [&unrelated]).is_ok() {
            o.fail("C09/verify/accepts-under-other-key", "signature verifies under an unrelated key", "Err");
        }
        // bit flips
        let reference = olpc_value(&serde_json::to_value(&back.metadata).unwrap()).ok();
        let pk0 = &pubs[s0_key];
        let direct_ok = reference.as_ref().map(|r| pk0.verify(r, s0).is_ok()).unwrap_or(false);
        o.class(if direct_ok { "direct-verify-available" } else { "direct-verify-unavailable" });
        let id0 = serde_json::to_value(s0.key_id()).unwrap().as_str().unwrap().to_string();
        // thorough tier: every bit position for a share of the Ed25519 cases
        let nbits = s0.value().as_bytes().len() * 8;
        let all_bits: Vec<u16> = if env.tier == Tier::Thorough && spec.signers[s0_key].is_deterministic() && spec.unrelated_seed % 8 == 0 {
            o.class("all-bit-positions");
            (0..nbits as u16).collect()
        } else {
            vec![]
        };
        for f in spec.flips.iter().chain(all_bits.iter()) {
            let mut b = s0.value().as_bytes().to_vec();
            let i = (*f as usize) % (b.len() * 8);
            b[i / 8] ^= 1 << (i % 8);
            let fs = sig_json(&id0, &b);
            if direct_ok && pk0.verify(reference.as_ref().unwrap(), &fs).is_ok() {
                o.fail(format!("C09/bitflip/public-key-verify-accepts/{}", spec.signers[s0_key].kind()), format!("bit {} flipped still verifies", i), "Err");
            }
            let fb = Metablock { signatures: vec![fs], metadata: back.metadata.clone() };
            if fb.verify(1, [pk0]).is_ok() {
                o.fail(format!("C09/bitflip/block-verify-accepts/{}", spec.signers[s0_key].kind()), format!("bit {} flipped still verifies", i), "Err");
            }
            o.evals += 1;
        }
        // scheme confusion
        match &spec.signers[s0_key] {
            KeySpec::Rsa { sha512, .. } => {
                let other_scheme = if *sha512 { SignatureScheme::RsaSsaPssSha256 } else { SignatureScheme::RsaSsaPssSha512 };
                let spki = spki_of(&spec.signers[s0_key]).unwrap();
                let other = PublicKey::from_spki(&spki, other_scheme).expect("spki");
                o.class("scheme-confusion:rsa");
                if direct_ok && other.verify(reference.as_ref().unwrap(), s0).is_ok() {
                    o.fail("C09/scheme/rsa-other-hash-accepts", "signature verifies under the same modulus declared with the other PSS hash", "Err");
                }
                let oid = serde_json::to_value(other.key_id()).unwrap().as_str().unwrap().to_string();
                let fb = Metablock { signatures: vec![sig_json(&oid, s0.value().as_bytes())], metadata: back.metadata.clone() };
                if fb.verify(1, [&other]).is_ok() {
                    o.fail("C09/scheme/rsa-other-hash-block-accepts", "block verifies under the same modulus declared with the other PSS hash", "Err");
                }
            }
            KeySpec::Ed { seed, .. } => {
                if let Ok(other) = PublicKey::from_ecdsa(ed_public(*seed)) {
                    o.class("scheme-confusion:ed-as-ecdsa");
                    if direct_ok && other.verify(reference.as_ref().unwrap(), s0).is_ok() {
                        o.fail("C09/scheme/ed25519-bytes-as-ecdsa-accepts", "ed25519 signature verifies under the bytes declared as ecdsa", "Err");
                    }
                    let oid = serde_json::to_value(other.key_id()).unwrap().as_str().unwrap().to_string();
                    let fb = Metablock { signatures: vec![sig_json(&oid, s0.value().as_bytes())], metadata: back.metadata.clone() };
                    if fb.verify(1, [&other]).is_ok() {
                        o.fail("C09/scheme/ed25519-bytes-as-ecdsa-block-accepts", "block verifies", "Err");
                    }
                }
            }
            _ => {}
        }
        o
    }
    fn nontrivial_floor() -> f64 {
        0.5
    }
}
