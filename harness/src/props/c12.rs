//! C12 Key identity is intrinsic, stable, interoperable and cannot be aliased.

use crate::fw::*;
use crate::gen::keys::*;
use crate::gen::meta::*;
use crate::model::keyid::*;
use in_toto::crypto::{PrivateKey, PublicKey, SignatureScheme};
use in_toto::models::LayoutMetadata;
use proptest::prelude::*;
use serde::{Deserialize, Serialize};
use serde_json::{json, Value};

pub struct C12;

#[derive(Clone, Debug, Serialize, Deserialize)]
pub enum Spec {
    /// a pool key through every construction path
    Paths { key: KeySpec },
    /// synthetic key material (not necessarily a valid key): SPKI import/export and ids only
    Synthetic { kind: u8, material: Vec<u8>, sha512: bool },
    /// a layout document whose key table files keys under wrong identifiers
    Table { keys: Vec<KeySpec>, filing: Vec<(usize, u8)>, lie_keyid: bool },
    /// history: other imports (damaged, unusual or clean ones) happen first in the same process, then `Paths`
    After { prelude: Vec<Noise>, key: KeySpec },
}

/// An import attempt whose outcome is not judged; it only precedes the judged imports.
#[derive(Clone, Debug, Serialize, Deserialize)]
pub enum Noise {
    /// PKCS#8 private key of a pool key: 0 = with an (empty) RFC 5208 `attributes [0]` member appended inside the
    /// outer SEQUENCE, 1 = with a non-empty attributes member, 2 = truncated at `pos`, 3 = one byte changed at `pos`,
    /// 4 = trailing bytes after the SEQUENCE, 5 = offered under another algorithm's scheme, 6.. = clean
    Pkcs8 { key: KeySpec, damage: u8, pos: u16 },
    /// the same for the SubjectPublicKeyInfo (DER or PEM)
    Spki { key: KeySpec, damage: u8, pos: u16, pem: bool },
    /// a JSON key document with a member removed or retyped
    Json { key: KeySpec, damage: u8 },
}

fn append_inside_outer_sequence(der: &[u8], extra: &[u8]) -> Vec<u8> {
    // der = 30 <len> <content>
    if der.len() < 2 || der[0] != 0x30 {
        return der.to_vec();
    }
    let (hdr, _) = if der[1] & 0x80 == 0 { (2usize, der[1] as usize) } else { (2 + (der[1] & 0x7f) as usize, 0) };
    if der.len() < hdr {
        return der.to_vec();
    }
    let mut content = der[hdr..].to_vec();
    content.extend_from_slice(extra);
    der_tlv(0x30, &content)
}

fn damage_der(der: &[u8], damage: u8, pos: u16) -> Vec<u8> {
    match damage {
        0 => append_inside_outer_sequence(der, &[0xa0, 0x00]),
        // attributes: SET OF Attribute { keyUsage-ish OID, SET { BIT STRING } }
        1 => append_inside_outer_sequence(der, &[0xa0, 0x0d, 0x30, 0x0b, 0x06, 0x03, 0x55, 0x1d, 0x0f, 0x31, 0x04, 0x03, 0x02, 0x00, 0x80]),
        2 => der[..(pos as usize) % der.len().max(1)].to_vec(),
        3 => {
            let mut v = der.to_vec();
            if !v.is_empty() {
                let i = (pos as usize) % v.len();
                v[i] ^= 1 << (pos % 8);
            }
            v
        }
        4 => {
            let mut v = der.to_vec();
            v.extend_from_slice(&[0x05, 0x00]);
            v
        }
        _ => der.to_vec(),
    }
}

impl Noise {
    fn class(&self) -> String {
        match self {
            Noise::Pkcs8 { key, damage, .. } => format!("pkcs8:{}:{}", key.kind().split('-').next().unwrap_or(""), (*damage).min(6)),
            Noise::Spki { key, damage, pem, .. } => format!("spki{}:{}:{}", if *pem { "-pem" } else { "" }, key.kind().split('-').next().unwrap_or(""), (*damage).min(6)),
            Noise::Json { key, damage } => format!("json:{}:{}", key.kind().split('-').next().unwrap_or(""), damage % 4),
        }
    }
    fn run(&self) {
        match self {
            Noise::Pkcs8 { key, damage, pos } => {
                let pk8 = pkcs8_of(key);
                let scheme = if *damage == 5 { other_scheme(key) } else { scheme_of(key) };
                let _ = PrivateKey::from_pkcs8(&damage_der(&pk8, *damage, *pos), scheme);
            }
            Noise::Spki { key, damage, pos, pem } => {
                let (der, _) = standard_spki(key);
                let scheme = if *damage == 5 { other_scheme(key) } else { scheme_of(key) };
                let d = damage_der(&der, *damage, *pos);
                if *pem {
                    let _ = PublicKey::from_pem_spki(&pem_public(&d), scheme);
                } else {
                    let _ = PublicKey::from_spki(&d, scheme);
                }
            }
            Noise::Json { key, damage } => {
                let d = describe(key);
                let mut doc = json!({"keytype": d.keytype, "scheme": d.scheme, "keyid_hash_algorithms": ["sha256", "sha512"], "keyval": {"public": d.public}});
                match damage % 4 {
                    0 => doc["keyval"] = json!({}),
                    1 => doc["scheme"] = json!("rsa-pkcs1v15-sha256"),
                    2 => doc["keyval"]["public"] = json!(format!("{}00", d.public)),
                    _ => doc["keytype"] = json!("ecdsa-sha2-nistp384"),
                }
                let _ = serde_json::from_value::<PublicKey>(doc);
            }
        }
    }
}

fn pkcs8_of(key: &KeySpec) -> Vec<u8> {
    match key {
        KeySpec::Ed { seed, .. } => ed_pkcs8(*seed),
        KeySpec::Ec { idx } => corpus_file(&format!("ecdsa-{}.pk8.der", idx % ECDSA_POOL)),
        KeySpec::Rsa { idx, .. } => corpus_file(&format!("{}.pk8.der", RSA_POOL[idx % RSA_POOL.len()])),
    }
}

fn other_scheme(k: &KeySpec) -> SignatureScheme {
    match k {
        KeySpec::Ed { .. } => SignatureScheme::EcdsaP256Sha256,
        KeySpec::Ec { .. } => SignatureScheme::RsaSsaPssSha256,
        KeySpec::Rsa { .. } => SignatureScheme::Ed25519,
    }
}

fn kid(k: &PublicKey) -> String {
    serde_json::to_value(k.key_id()).unwrap().as_str().unwrap().to_string()
}

fn scheme_of(k: &KeySpec) -> SignatureScheme {
    match k {
        KeySpec::Ed { .. } => SignatureScheme::Ed25519,
        KeySpec::Ec { .. } => SignatureScheme::EcdsaP256Sha256,
        KeySpec::Rsa { sha512: false, .. } => SignatureScheme::RsaSsaPssSha256,
        KeySpec::Rsa { sha512: true, .. } => SignatureScheme::RsaSsaPssSha512,
    }
}

/// (standard SPKI DER, raw material as the library stores it)
fn standard_spki(k: &KeySpec) -> (Vec<u8>, Vec<u8>) {
    match k {
        KeySpec::Ed { seed, .. } => (spki_ed25519(&ed_public(*seed)), ed_public(*seed)),
        KeySpec::Ec { idx } => (spki_p256(&ec_point(*idx)), ec_point(*idx)),
        KeySpec::Rsa { idx, .. } => {
            let s = rsa_spki(*idx);
            (s.clone(), vec![])
        }
    }
}

struct Obs {
    path: &'static str,
    key: Result<PublicKey, String>,
    /// does this path use the default key-id hash-algorithm list (true) or none (false)
    list: bool,
}

fn check_spki_roundtrip(der: &[u8], scheme: SignatureScheme, label: &str, o: &mut Outcome) -> Option<PublicKey> {
    match guarded(|| PublicKey::from_spki(der, scheme)) {
        Err(pi) => {
            o.fail(format!("C12/spki/{}/import-panics", label), format!("{}:{} {}", pi.file, pi.line, pi.message), "Ok");
            None
        }
        Ok(Err(e)) => {
            o.fail(format!("C12/spki/{}/standard-encoding-rejected", label), format!("from_spki({}) = Err({})", hex(der), e), "Ok: standards-conformant SubjectPublicKeyInfo");
            None
        }
        Ok(Ok(k)) => {
            match k.as_spki() {
                Ok(out) if out == der => {}
                Ok(out) => o.fail(format!("C12/spki/{}/export-differs-from-import", label), format!("imported {} exported {}", hex(der), hex(&out)), "re-exported unchanged"),
                Err(e) => o.fail(format!("C12/spki/{}/export-error", label), format!("{}", e), "DER"),
            }
            Some(k)
        }
    }
}

fn check_paths(key: &KeySpec, o: &mut Outcome) {
        o.class(format!("paths:{}", key.kind()));
        o.nontrivial(format!("{:?}", key));
        let scheme = scheme_of(key);
        let (der, raw) = standard_spki(key);
        let pem = pem_public(&der);
        let mut obs: Vec<Obs> = vec![];
        // SPKI paths (default list)
        let imported = check_spki_roundtrip(&der, scheme.clone(), key.kind().split('-').next().unwrap_or("key"), o);
        obs.push(Obs { path: "from_spki", key: imported.ok_or_else(|| "rejected".to_string()), list: true });
        obs.push(Obs {
            path: "from_pem_spki",
            key: match guarded(|| PublicKey::from_pem_spki(&pem, scheme.clone())) {
                Ok(r) => r.map_err(|e| e.to_string()),
                Err(pi) => Err(format!("panic {}", pi.message)),
            },
            list: true,
        });
        // private key derivation (default list)
        let pk8 = match key {
            KeySpec::Ed { seed, .. } => ed_pkcs8(*seed),
            KeySpec::Ec { idx } => corpus_file(&format!("ecdsa-{}.pk8.der", idx % ECDSA_POOL)),
            KeySpec::Rsa { idx, .. } => corpus_file(&format!("{}.pk8.der", RSA_POOL[idx % RSA_POOL.len()])),
        };
        obs.push(Obs { path: "from_pkcs8", key: PrivateKey::from_pkcs8(&pk8, scheme.clone()).map(|k| k.public().clone()).map_err(|e| e.to_string()), list: true });
        // raw paths (list absent)
        match key {
            KeySpec::Ed { seed, .. } => {
                obs.push(Obs { path: "from_ed25519", key: PublicKey::from_ed25519(raw.clone()).map_err(|e| e.to_string()), list: false });
                obs.push(Obs {
                    path: "from_ed25519_with_list",
                    key: PublicKey::from_ed25519_with_keyid_hash_algorithms(raw.clone(), Some(vec!["sha256".into(), "sha512".into()])).map_err(|e| e.to_string()),
                    list: true,
                });
                let mut kp = ed_seed_bytes(*seed).to_vec();
                kp.extend_from_slice(&raw);
                obs.push(Obs { path: "private_from_ed25519", key: PrivateKey::from_ed25519(&kp).map(|k| k.public().clone()).map_err(|e| e.to_string()), list: false });
            }
            KeySpec::Ec { .. } => {
                obs.push(Obs { path: "from_ecdsa", key: PublicKey::from_ecdsa(raw.clone()).map_err(|e| e.to_string()), list: false });
                obs.push(Obs {
                    path: "from_ecdsa_with_list",
                    key: PublicKey::from_ecdsa_with_keyid_hash_algorithms(raw.clone(), Some(vec!["sha256".into(), "sha512".into()])).map_err(|e| e.to_string()),
                    list: true,
                });
            }
            _ => {}
        }
        // JSON paths, both list variants
        for list in [true, false] {
            let mut d = describe(key);
            d.hash_algs = list;
            let id = reference_key_id_of(&d);
            let mut doc = json!({"keytype": d.keytype, "scheme": d.scheme, "keyval": {"public": d.public}});
            if list {
                doc["keyid_hash_algorithms"] = json!(["sha256", "sha512"]);
            }
            obs.push(Obs { path: if list { "json_with_list" } else { "json_without_list" }, key: serde_json::from_value::<PublicKey>(doc.clone()).map_err(|e| e.to_string()), list });
            // a lying keyid member must not be trusted
            doc["keyid"] = json!("0".repeat(64));
            if let Ok(k) = serde_json::from_value::<PublicKey>(doc) {
                if kid(&k) != id {
                    o.fail("C12/json/keyid-member-trusted", format!("key id {} taken from the document", kid(&k)), format!("intrinsic id {}", id));
                }
            }
        }
        // unusual but representable hash-algorithm lists: the id is that of the key's own description and survives JSON
        for list in [vec![], vec!["sha256"], vec!["sha512", "sha256"], vec!["md5", "x"]] {
            let d = describe(key);
            let want = reference_key_id_with_list(&d, Some(&list));
            let doc = json!({"keytype": d.keytype, "scheme": d.scheme, "keyid_hash_algorithms": list, "keyval": {"public": d.public}});
            if let Ok(k) = serde_json::from_value::<PublicKey>(doc) {
                o.evals += 1;
                if kid(&k) != want {
                    o.fail(format!("C12/keyid/{}/json-list-{}", key.kind().split('-').next().unwrap_or(""), list.len()), format!("key_id = {} for keyid_hash_algorithms {:?}", kid(&k), list), format!("reference formula = {}", want));
                }
                let j = serde_json::to_value(&k).expect("ser key");
                match serde_json::from_value::<PublicKey>(j.clone()) {
                    Ok(k2) if k2 == k && k2.key_id() == k.key_id() => {}
                    other => o.fail(format!("C12/json-roundtrip/list-{}", list.len()), format!("{:?} after JSON round trip of {}", other.map(|x| kid(&x)), j), "equal key and id"),
                }
            }
        }
        // RSA: the key id is intrinsic, whatever line ends / trailing newline the PEM text in the document uses
        if let KeySpec::Rsa { .. } = key {
            let d = describe(key);
            let want = reference_key_id_of(&d);
            for (name, text) in [
                ("crlf", d.public.replace('\n', "\r\n")),
                ("trailing-newline", format!("{}\n", d.public)),
                ("leading-blank-line", format!("\n{}", d.public)),
            ] {
                let doc = json!({"keytype": d.keytype, "scheme": d.scheme, "keyid_hash_algorithms": ["sha256", "sha512"], "keyval": {"public": text}});
                if let Ok(k) = serde_json::from_value::<PublicKey>(doc) {
                    o.evals += 1;
                    if kid(&k) != want {
                        o.fail(format!("C12/keyid/rsa/pem-formatting-{}", name), format!("key_id = {}", kid(&k)), format!("intrinsic id {}", want));
                    }
                }
            }
        }
        for ob in &obs {
            let mut d = describe(key);
            d.hash_algs = ob.list;
            let want = reference_key_id_of(&d);
            match &ob.key {
                Err(e) => {
                    if ob.path != "from_spki" {
                        o.fail(format!("C12/path/{}/{}/rejected", key.kind().split('-').next().unwrap_or(""), ob.path), e.clone(), "a key");
                    }
                }
                Ok(k) => {
                    o.evals += 1;
                    if kid(k) != want {
                        o.fail(format!("C12/keyid/{}/{}", key.kind().split('-').next().unwrap_or(""), ob.path), format!("key_id = {}", kid(k)), format!("reference formula = {}", want));
                    }
                    // JSON round trip
                    let j = serde_json::to_value(k).expect("ser key");
                    match serde_json::from_value::<PublicKey>(j.clone()) {
                        Ok(k2) => {
                            if &k2 != k || k2.key_id() != k.key_id() || serde_json::to_value(&k2).unwrap() != j {
                                o.fail(format!("C12/json-roundtrip/{}", ob.path), format!("{:?} vs {:?}", k, k2), "equal key, id and JSON");
                            }
                        }
                        Err(e) => o.fail(format!("C12/json-roundtrip/{}/own-json-rejected", ob.path), format!("{}: {}", e, j), "parses back"),
                    }
                }
            }
        }
        // equal description => equal key and id across paths
        for a in &obs {
            for b in &obs {
                if let (Ok(ka), Ok(kb)) = (&a.key, &b.key) {
                    if a.list == b.list && (ka != kb || ka.key_id() != kb.key_id()) {
                        o.fail(format!("C12/paths-disagree/{}-vs-{}", a.path, b.path), format!("{:?} vs {:?}", ka, kb), "equal keys");
                    }
                }
            }
        }
}

fn pool_key() -> BoxedStrategy<KeySpec> {
    prop_oneof![
        1 => (any::<u8>(), any::<bool>()).prop_map(|(seed, pkcs8)| KeySpec::Ed { seed, pkcs8 }),
        1 => (0..ECDSA_POOL).prop_map(|idx| KeySpec::Ec { idx }),
        2 => (0..RSA_POOL.len(), any::<bool>()).prop_map(|(idx, sha512)| KeySpec::Rsa { idx, sha512 }),
    ]
    .boxed()
}

fn noise() -> BoxedStrategy<Noise> {
    prop_oneof![
        3 => (pool_key(), 0u8..8, any::<u16>()).prop_map(|(key, damage, pos)| Noise::Pkcs8 { key, damage, pos }),
        2 => (pool_key(), 0u8..8, any::<u16>(), any::<bool>()).prop_map(|(key, damage, pos, pem)| Noise::Spki { key, damage, pos, pem }),
        1 => (pool_key(), 0u8..4).prop_map(|(key, damage)| Noise::Json { key, damage }),
    ]
    .boxed()
}

impl Property for C12 {
    type Spec = Spec;
    fn id() -> &'static str {
        "C12"
    }
    fn rule() -> String {
        "Generated: (a) pool keys of all types/sizes (Ed25519 from seeds, OpenSSL-made ECDSA P-256 and RSA 2048/3072/4096) through every \
         construction path: raw bytes, DER SPKI written by the harness' RFC 8410/5480/3279 encoders (cross-checked against OpenSSL output at \
         start-up), PEM SPKI, derivation from PKCS#8 private keys, raw 64-byte Ed25519 keypairs, JSON with both key-id hash-algorithm-list \
         variants; (b) synthetic material: random 32-byte Ed25519 values, random 65-byte uncompressed points, random RSA moduli of 2048-4096 bits; \
         (c) layout documents whose key table files keys under a wrong identifier, another key's identifier, their own identifier written wholly or partly in upper-case hexadecimal, or with a lying keyid member. \
         Oracle: key_id == hex(sha256(OLPC(description of that key's own type, scheme, list, material))); equal across paths with equal \
         description; survives JSON->parse->JSON; from_spki(x) = Ok and as_spki() == x; after parsing a layout every (id,key) in the table has \
         key.key_id()==id. (d) history: (a) preceded in the same process by 1-3 other import attempts whose outcome is not judged (PKCS#8 / SPKI / PEM / JSON of pool keys: with an RFC 5208 attributes member, truncated, one byte changed, trailing bytes, offered under another algorithm's scheme, or clean). (The end-to-end aliasing clause is exercised in the C02 worlds.) Non-trivial: every case; distinct by (kind, material, variant)."
            .into()
    }
    fn assumptions() -> Vec<String> {
        vec![
            "reference key-id formula anchored to the Python-made fixture id by a self test; DER writers anchored to OpenSSL 3 output".into(),
            "ECDSA key material representation in the key description is the library's (hex of the uncompressed point)".into(),
        ]
    }
    fn cases(tier: Tier) -> u64 {
        tier.pick(160_000, 400_000)
    }
    fn strategy(_tier: Tier) -> BoxedStrategy<Spec> {
        prop_oneof![
            3 => prop_oneof![
                3 => (any::<u8>(), any::<bool>()).prop_map(|(seed, pkcs8)| KeySpec::Ed { seed, pkcs8 }),
                1 => (0..ECDSA_POOL).prop_map(|idx| KeySpec::Ec { idx }),
                1 => (0..RSA_POOL.len(), any::<bool>()).prop_map(|(idx, sha512)| KeySpec::Rsa { idx, sha512 }),
            ].prop_map(|key| Spec::Paths { key }),
            3 => prop_oneof![
                (Just(0u8), proptest::collection::vec(any::<u8>(), 32), Just(false)),
                (Just(1u8), proptest::collection::vec(any::<u8>(), 64).prop_map(|mut v| { v.insert(0, 4); v }), Just(false)),
                (Just(2u8), prop_oneof![Just(256usize), Just(384), Just(512), 256usize..=512].prop_flat_map(|n| proptest::collection::vec(any::<u8>(), n)).prop_map(|mut v| { v[0] |= 0x80; let l = v.len(); v[l - 1] |= 1; v }), any::<bool>()),
            ].prop_map(|(kind, material, sha512)| Spec::Synthetic { kind, material, sha512 }),
            3 => (distinct_keys(1, 3, true), proptest::collection::vec((0usize..3, 0u8..6), 1..4), any::<bool>())
                .prop_map(|(keys, filing, lie_keyid)| Spec::Table { keys, filing, lie_keyid }),
            2 => (proptest::collection::vec(noise(), 1..4), pool_key()).prop_map(|(prelude, key)| Spec::After { prelude, key }),
            // cardinality tail: key tables with 17-70 keys, most of them filed under a wrong identifier
            1 => (prop_oneof![Just(17usize), Just(20), Just(33), Just(70)], any::<u8>(), any::<bool>()).prop_flat_map(|(n, seed, lie_keyid)| {
                crate::gen::world::many_keys(n).prop_map(move |keys| {
                    let filing = (0..keys.len()).map(|i| (i, if (i + seed as usize) % 5 == 0 { 0u8 } else { 1 + ((i + seed as usize) % 3) as u8 })).collect();
                    Spec::Table { keys, filing, lie_keyid }
                })
            }),
        ]
        .boxed()
    }
    fn concurrent() -> bool {
        true
    }
    fn check(spec: &Spec, _env: &mut Env) -> Outcome {
        let mut o = Outcome::new();
        match spec {
            Spec::Paths { key } => check_paths(key, &mut o),
            Spec::After { prelude, key } => {
                o.class("after-other-imports");
                for n in prelude {
                    o.class(format!("prelude:{}", n.class()));
                    let _ = guarded(|| n.run());
                }
                check_paths(key, &mut o);
                o.nontrivial(format!("{:?}|{:?}", prelude, key));
            }
            Spec::Synthetic { kind, material, sha512 } => {
                o.nontrivial(format!("{}|{}|{}", kind, hex(material), sha512));
                match kind {
                    0 => {
                        o.class("synthetic:ed25519");
                        let der = spki_ed25519(material);
                        if let Some(k) = check_spki_roundtrip(&der, SignatureScheme::Ed25519, "ed25519", &mut o) {
                            let want = reference_key_id_of(&KeyDesc { keytype: "ed25519", scheme: "ed25519", hash_algs: true, public: hex(material) });
                            if kid(&k) != want {
                                o.fail("C12/keyid/ed25519/synthetic-spki", kid(&k), want);
                            }
                        }
                    }
                    1 => {
                        o.class("synthetic:ecdsa");
                        let der = spki_p256(material);
                        if let Some(k) = check_spki_roundtrip(&der, SignatureScheme::EcdsaP256Sha256, "ecdsa", &mut o) {
                            let want = reference_key_id_of(&KeyDesc { keytype: "ecdsa", scheme: "ecdsa-sha2-nistp256", hash_algs: true, public: hex(material) });
                            if kid(&k) != want {
                                o.fail("C12/keyid/ecdsa/synthetic-spki", kid(&k), want);
                            }
                        }
                    }
                    _ => {
                        o.class("synthetic:rsa");
                        let der = spki_rsa(&pkcs1(material, &[1, 0, 1]));
                        let (scheme, sname) = if *sha512 { (SignatureScheme::RsaSsaPssSha512, "rsassa-pss-sha512") } else { (SignatureScheme::RsaSsaPssSha256, "rsassa-pss-sha256") };
                        if let Some(k) = check_spki_roundtrip(&der, scheme, "rsa", &mut o) {
                            let want = reference_key_id_of(&KeyDesc { keytype: "rsa", scheme: sname, hash_algs: true, public: pem_public(&der) });
                            if kid(&k) != want {
                                o.fail("C12/keyid/rsa/synthetic-spki", kid(&k), want);
                            }
                        }
                    }
                }
            }
            Spec::Table { keys, filing, lie_keyid } => {
                o.class("table");
                o.nontrivial(format!("{:?}|{:?}|{}", keys, filing, lie_keyid));
                let mut table = serde_json::Map::new();
                let ids: Vec<String> = keys.iter().map(reference_key_id).collect();
                let mut honest = 0;
                for (i, mode) in filing {
                    let i = i % keys.len();
                    let (own_id, mut doc) = key_wire(&keys[i]);
                    let filed_under = match mode {
                        0 => {
                            honest += 1;
                            own_id.clone()
                        }
                        1 => ids[(i + 1) % keys.len()].clone(), // another key's id (or its own when only one key)
                        2 => "f".repeat(64),
                        // its own identifier in upper-case hexadecimal: another string, so another identifier
                        4 => own_id.to_uppercase(),
                        // ... or with only the first letter digit in upper case
                        5 => match own_id.find(|c: char| c.is_ascii_lowercase()) {
                            Some(p) => format!("{}{}{}", &own_id[..p], own_id[p..p + 1].to_uppercase(), &own_id[p + 1..]),
                            None => "e".repeat(64),
                        },
                        _ => {
                            let mut s = own_id.clone();
                            s.replace_range(0..1, if own_id.starts_with('0') { "1" } else { "0" });
                            s
                        }
                    };
                    if *lie_keyid {
                        doc["keyid"] = Value::String(filed_under.clone());
                    }
                    table.insert(filed_under, doc);
                }
                let _ = honest;
                // one key obtained twice (derived from the private key, and read from its JSON form) is one key: a
                // signature by it is counted once, however often the key is handed over
                {
                    let sk = private(&keys[0]);
                    let again: Option<PublicKey> = serde_json::from_value(key_wire(&keys[0]).1).ok();
                    let link = in_toto::models::LinkMetadataBuilder::new().name("n".into()).build();
                    if let (Some(again), Ok(link)) = (again, link) {
                        if let Ok(block) = in_toto::models::Metablock::new(in_toto::models::MetadataWrapper::Link(link), &[&*sk]) {
                            let pk = sk.public().clone();
                            if block.verify(1, [&pk, &again]).is_err() {
                                o.fail("C12/same-key-twice/not-counted", "verify(1, [k, k from JSON]) = Err for a block signed by k", "Ok");
                            }
                            if block.verify(2, [&pk, &again]).is_ok() {
                                o.fail("C12/same-key-twice/counted-per-occurrence", format!("verify(2, [k, k from JSON]) = Ok for a block signed once by k = {:?}", keys[0]), "Err: one key, one signature");
                            }
                        }
                    }
                }
                let d = json!({"_type": "layout", "expires": "2100-01-01T00:00:00Z", "readme": "", "keys": table, "steps": [], "inspect": []});
                match serde_json::from_value::<LayoutMetadata>(d.clone()) {
                    Err(_) => o.class("table-rejected"),
                    Ok(l) => {
                        for (id, k) in &l.keys {
                            // (identifiers compared as the strings they are written as)
                            if serde_json::to_value(id).ok() != serde_json::to_value(k.key_id()).ok() {
                                o.fail("C12/table/aliased-entry-kept", format!("table maps {:?} to a key whose id is {:?}; document {}", id, k.key_id(), d), "entry dropped or document rejected");
                            }
                            let want = ids.iter().any(|x| *x == kid(k));
                            if !want {
                                o.fail("C12/table/unknown-key-id", format!("{:?}", k.key_id()), "id of one of the generated keys");
                            }
                        }
                    }
                }
            }
        }
        o
    }
    fn selftest(_env: &mut Env) -> Result<(), String> {
        crate::model::cjson::selftest()?;
        crate::model::keyid::selftest()
    }
    fn nontrivial_floor() -> f64 {
        0.6
    }
}
