//! C05 Any meaningful change to signed content invalidates its signatures.

use crate::fw::*;
use crate::gen::edit::*;
use crate::gen::json::*;
use crate::gen::keys::*;
use crate::gen::meta::*;
use crate::model::cjson::J;
use crate::props::c11::{doc_strategy, Doc};
use in_toto::interchange::{DataInterchange, Json};
use in_toto::models::{Metablock, MetadataWrapper};
use proptest::prelude::*;
use serde::{Deserialize, Serialize};
use serde_json::json;

pub struct C05;

#[derive(Clone, Debug, Serialize, Deserialize)]
pub enum Spec {
    /// a document, one edit of its wire tree, the signing key
    Edit { doc: Doc, edit: TreeEdit, key: KeySpec },
    /// many small documents over a near-collision alphabet: equal signed bytes => equal values
    Bulk { docs: Vec<LinkSpec>, seed: u8 },
    /// two JSON values for the canonical encoder
    Pair { a: J, b: J },
    /// two layouts that differ only in their expiry (whole seconds)
    Expiry { layout: LayoutSpec, key: KeySpec, a: i64, b: i64 },
    /// two documents whose field `field` is `pad` filler bytes, then one of two sibling characters (equal UTF-8
    /// length, equal leading bytes, different last byte), then `tail`: the character sits at a chosen byte offset
    Sibling { field: u8, pad: u16, pair: u8, tail: u8, key: KeySpec },
}

const SIBLINGS: &[(char, char)] = &[('é', 'ü'), ('中', '丮'), ('😀', '😁'), ('\u{80}', '\u{81}'), ('\u{7ff}', '\u{7fe}'), ('\u{ffff}', '\u{fffe}'), ('a', 'b')];
const TAILS: &[&str] = &["", " says \"hello\"", "\\", "\"", "x\n\"q", "\t", " tail without anything special", "\\n"];


/// expiry instants biased to calendar boundaries (new year, month ends, leap days, midnight)
fn expiry_pair() -> BoxedStrategy<(i64, i64)> {
    let year_start = |y: i64| -> i64 {
        // days from civil (Howard Hinnant), 1 January of year y
        let y2 = y - 1;
        let era = y2.div_euclid(400);
        let yoe = y2.rem_euclid(400);
        let doy = 306; // 1 Jan counted from 1 March of the previous year
        let doe = yoe * 365 + yoe / 4 - yoe / 100 + doy;
        (era * 146097 + doe - 719468) * 86400
    };
    let base = prop_oneof![
        3 => (1971i64..2200, -5i64..6, 0i64..86400).prop_map(move |(y, d, s)| year_start(y) + d * 86400 + s),
        2 => (0i64..253_402_300_799 - 400 * 86400),
        1 => (1971i64..2200).prop_map(move |y| year_start(y)),
    ];
    let delta = prop_oneof![
        Just(1i64), Just(59), Just(60), Just(3600), Just(86400), Just(7 * 86400), Just(365 * 86400), Just(366 * 86400), Just(364 * 86400), Just(371 * 86400),
        Just(30 * 86400), Just(31 * 86400), Just(12 * 3600), Just(100 * 365 * 86400 + 24 * 86400), 1i64..100_000,
    ];
    (base, delta, any::<bool>()).prop_map(|(a, d, neg)| if neg && a - d >= 0 { (a, a - d) } else { (a, a + d) }).boxed()
}

const TINY: &[&str] = &["", "n", "\\", "\n", "\\n", "\"", "a", "\\\\", "\\\"", "a\"", "\",\"", "\t", "\\t", "[", "]", "a\",\"b"];

fn tiny() -> BoxedStrategy<String> {
    prop_oneof![
        3 => (0..TINY.len()).prop_map(|i| TINY[i].to_string()),
        1 => (0..TINY.len(), 0..TINY.len()).prop_map(|(i, j)| format!("{}{}", TINY[i], TINY[j])),
    ]
    .boxed()
}

fn tiny_link() -> BoxedStrategy<LinkSpec> {
    (
        tiny(),
        proptest::collection::vec(tiny(), 0..3),
        proptest::option::of(tiny()),
        proptest::option::of(tiny()),
        proptest::collection::btree_map(tiny().prop_filter("reserved", |k| !["return-value", "stdout", "stderr"].contains(&k.as_str())), tiny(), 0..2),
        proptest::option::of(proptest::collection::btree_map(tiny(), tiny(), 0..2)),
        proptest::collection::btree_set(tiny(), 0..2),
    )
        .prop_map(|(name, command, stdout, stderr, other, env, paths)| LinkSpec {
            name,
            materials: paths.into_iter().map(|p| (p, [("sha256".to_string(), DIGEST_POOL_256[0].to_string())].into())).collect(),
            products: Default::default(),
            env,
            byproducts: ByprodSpec { return_value: None, stdout, stderr, other },
            command,
        })
        .boxed()
}

/// derive a near value from `a` by one edit of its tree
fn near_pair() -> BoxedStrategy<(J, J)> {
    (json_value(false), tree_edit())
        .prop_map(|(a, e)| {
            let av = a.to_value();
            let b = apply_edit(&av, &e).map(|(v, _)| J::from_value(&v)).unwrap_or(J::Arr(vec![a.clone()]));
            (a, b)
        })
        .boxed()
}

fn edit_class(what: &str) -> String {
    // "kind@a/b/c" -> kind@a/b (drop data-dependent tail)
    let (k, p) = what.split_once('@').unwrap_or((what, ""));
    let parts: Vec<&str> = p.split('/').collect();
    let head = match parts.first().copied().unwrap_or("") {
        "materials" | "products" | "environment" | "keys" => parts[0].to_string(),
        "byproducts" => {
            let second = parts.get(1).copied().unwrap_or("");
            if ["return-value", "stdout", "stderr"].contains(&second) {
                format!("byproducts/{}", second)
            } else {
                "byproducts/other".to_string()
            }
        }
        "steps" | "inspect" => parts.iter().take(3).cloned().collect::<Vec<_>>().join("/"),
        other => other.to_string(),
    };
    format!("edit:{}@{}", k, head)
}

impl Property for C05 {
    type Spec = Spec;
    fn id() -> &'static str {
        "C05"
    }
    fn rule() -> String {
        "Generated: (a) a layout or link M1 (builders, adversarial text) and M2 = the wire tree of M1 with ONE site edited (string leaf: \
         near-collision rewrites LF<->backslash-n, quotes, backslashes, control characters, retyping; numbers +-1; member rename/removal; text \
         moved between key and value; array element removed/duplicated/merged/split/swapped); (b) batches of 24 small links over a 16-string \
         near-collision alphabet; (c) pairs of JSON values (independent or one edit apart); (d) pairs of documents whose chosen field holds filler, then one of two sibling characters (same UTF-8 length and leading bytes), then a tail with or without quotes/backslashes, the character placed at byte offsets around 64, 128, 4096, 8192, 16384 and at random. Oracle: (a) when the edited tree parses and \
         parsed(M2) != parsed(M1), then - after the genuine block has been verified once in the same process - the block {signatures: sign(M1), signed: M2} must fail verify(1,[k]), and Ed25519 signatures of M1 and M2 \
         differ; (b) equal Ed25519 signatures (= equal signed bytes) only for equal values; (c) v1 != v2 => canonicalize(v1) != canonicalize(v2). \
         Non-trivial: (a) the edit is observable (parsed values differ); (b) always; (c) values differ. Distinct by the exact case."
            .into()
    }
    fn assumptions() -> Vec<String> {
        vec![
            "Ed25519 signatures are a deterministic injective-in-practice function of the signed bytes (no SHA-512 collisions)".into(),
            "observability is decided by the library's PartialEq on parsed metadata (the property quantifies over unequal parsed values)".into(),
        ]
    }
    fn cases(tier: Tier) -> u64 {
        tier.pick(240_000, 2_000_000)
    }
    fn strategy(_tier: Tier) -> BoxedStrategy<Spec> {
        prop_oneof![
            10 => (doc_strategy(true), tree_edit(), prop_oneof![9 => ed_key(), 1 => any_key()]).prop_map(|(doc, edit, key)| Spec::Edit { doc, edit, key }),
            1 => (proptest::collection::vec(tiny_link(), 24), 0u8..12).prop_map(|(docs, seed)| Spec::Bulk { docs, seed }),
            2 => near_pair().prop_map(|(a, b)| Spec::Pair { a, b }),
            1 => (json_value(false), json_value(false)).prop_map(|(a, b)| Spec::Pair { a, b }),
            3 => (layout_spec(false, true), ed_key(), expiry_pair()).prop_map(|(layout, key, (a, b))| Spec::Expiry { layout, key, a, b }),
            2 => (0u8..16, prop_oneof![4 => 56u16..72, 2 => 120u16..136, 1 => 0u16..300, 1 => 4088u16..4100, 1 => 8184u16..8196, 1 => 16376u16..16388], 0..SIBLINGS.len() as u8, 0..TAILS.len() as u8, ed_key())
                .prop_map(|(field, pad, pair, tail, key)| Spec::Sibling { field, pad, pair, tail, key }),
        ]
        .boxed()
    }
    fn concurrent() -> bool {
        true
    }
    fn check(spec: &Spec, _env: &mut Env) -> Outcome {
        let mut o = Outcome::new();
        match spec {
            Spec::Edit { doc, edit, key } => {
                let m1 = doc.to_lib();
                let tree = serde_json::to_value(&m1).expect("to_value");
                let sk = private(key);
                let pk = sk.public().clone();
                let b1 = match Metablock::new(m1.clone(), &[&*sk]) {
                    Ok(b) => b,
                    Err(e) => {
                        o.fail("C05/sign/error", format!("{}", e), "signed block");
                        return o;
                    }
                };
                let sigs = serde_json::to_value(&b1.signatures).unwrap();
                // the generated edit, then (deterministically) neighbouring edit kinds at the same
                // site until one yields a parseable, observable change
                let mut found = None;
                let mut last = "edit:none".to_string();
                for j in 0..10u8 {
                    let e = TreeEdit { site: edit.site, kind: edit.kind.wrapping_add(j.wrapping_mul(7)), arg: edit.arg.clone() };
                    let Some((tree2, what)) = apply_edit(&tree, &e) else { continue };
                    let b2: Metablock = match serde_json::from_value(json!({"signatures": sigs, "signed": tree2})) {
                        Ok(b) => b,
                        Err(_) => {
                            last = format!("unparseable:{}", edit_class(&what));
                            continue;
                        }
                    };
                    if b2.metadata == m1 {
                        last = format!("not-observable:{}", edit_class(&what));
                        continue;
                    }
                    found = Some((tree2, what, b2));
                    break;
                }
                let Some((tree2, what, b2)) = found else {
                    o.class(last);
                    return o;
                };
                let class = edit_class(&what);
                o.class(class.clone());
                o.nontrivial(format!("{:?}|{:?}", doc, edit));
                // history: the genuine block is verified (and accepted) first, in this process
                let _ = b1.verify(1, [&pk]);
                if b2.verify(1, [&pk]).is_ok() {
                    o.fail(format!("C05/stale-signature-accepted/{}", class),
                        format!("signature over M1 verifies over M2 ({}): M2 = {}", what, tree2),
                        "Err: parsed values differ");
                }
                if key.is_deterministic() {
                    if let Ok(b3) = Metablock::new(b2.metadata.clone(), &[&*sk]) {
                        if b3.signatures[0].value().as_bytes() == b1.signatures[0].value().as_bytes() {
                            o.fail(format!("C05/equal-signed-bytes/{}", class),
                                format!("M1 and M2 ({}) have equal Ed25519 signatures, i.e. equal signed bytes; M2 = {}", what, tree2),
                                "different signed bytes");
                        }
                    }
                }
            }
            Spec::Sibling { field, pad, pair, tail, key } => {
                o.class("sibling-characters-at-offset");
                let (c1, c2) = SIBLINGS[*pair as usize % SIBLINGS.len()];
                let t = TAILS[*tail as usize % TAILS.len()];
                let s1 = format!("{}{}{}", "a".repeat(*pad as usize), c1, t);
                let s2 = format!("{}{}{}", "a".repeat(*pad as usize), c2, t);
                let m1 = crate::props::c11::doc_with_text(*field as usize, &s1).to_lib();
                let m2 = crate::props::c11::doc_with_text(*field as usize, &s2).to_lib();
                if m1 == m2 {
                    return o;
                }
                o.nontrivial(format!("S|{}|{}|{}|{}", field, pad, pair, tail));
                let sk = private(key);
                let pk = sk.public().clone();
                let (Ok(b1), Ok(b2)) = (Metablock::new(m1, &[&*sk]), Metablock::new(m2.clone(), &[&*sk])) else {
                    o.fail("C05/sign/error", "signing failed", "signed block");
                    return o;
                };
                let _ = b1.verify(1, [&pk]);
                let stale = Metablock { signatures: b1.signatures.clone(), metadata: m2 };
                if stale.verify(1, [&pk]).is_ok() {
                    o.fail("C05/stale-signature-accepted/sibling-character", format!("signature over a document with {:?} at byte offset {} of field {} verifies over the document with {:?} there (tail {:?})", c1, pad, field % 16, c2, t), "Err");
                }
                if key.is_deterministic() && b1.signatures[0].value().as_bytes() == b2.signatures[0].value().as_bytes() {
                    o.fail("C05/equal-signed-bytes/sibling-character", format!("documents with {:?} / {:?} at byte offset {} of field {} have equal signed bytes (tail {:?})", c1, c2, pad, field % 16, t), "different signed bytes");
                }
            }
            Spec::Expiry { layout, key, a, b } => {
                o.class("expiry-pair");
                let mut la = layout.clone();
                la.expires = *a;
                let mut lb = layout.clone();
                lb.expires = *b;
                let ma = MetadataWrapper::Layout(la.to_lib());
                let mb = MetadataWrapper::Layout(lb.to_lib());
                if ma == mb {
                    return o;
                }
                o.nontrivial(format!("E|{}|{}|{}", a, b, layout.steps.len()));
                let sk = private(key);
                let pk = sk.public().clone();
                let (Ok(ba), Ok(bb)) = (Metablock::new(ma, &[&*sk]), Metablock::new(mb.clone(), &[&*sk])) else {
                    o.fail("C05/sign/error", "signing failed", "signed block");
                    return o;
                };
                // transplant: signatures of A over content B
                let stale = Metablock { signatures: ba.signatures.clone(), metadata: mb };
                let _ = ba.verify(1, [&pk]);
                if stale.verify(1, [&pk]).is_ok() {
                    o.fail("C05/stale-signature-accepted/edit:expiry", format!("signature over expiry {} ({}) verifies over expiry {} ({})", a, rfc3339_z(*a), b, rfc3339_z(*b)), "Err");
                }
                if ba.signatures[0].value().as_bytes() == bb.signatures[0].value().as_bytes() {
                    o.fail("C05/equal-signed-bytes/edit:expiry", format!("layouts expiring {} and {} have equal signed bytes", rfc3339_z(*a), rfc3339_z(*b)), "different signed bytes");
                }
                // and through the wire: edit the text of A's file
                if let Ok(text) = serde_json::to_string(&ba) {
                    let edited = text.replacen(&rfc3339_z(*a), &rfc3339_z(*b), 1);
                    if let Ok(parsed) = serde_json::from_str::<Metablock>(&edited) {
                        if parsed.metadata != ba.metadata && parsed.verify(1, [&pk]).is_ok() {
                            o.fail("C05/stale-signature-accepted/edit:expiry-text", format!("expires edited from {} to {} in the signed file and the signature still verifies", rfc3339_z(*a), rfc3339_z(*b)), "Err");
                        }
                    }
                }
            }
            Spec::Bulk { docs, seed } => {
                o.class("bulk");
                o.evals = docs.len() as u64;
                o.nontrivial(format!("{:?}", docs));
                let sk = private(&KeySpec::Ed { seed: *seed, pkcs8: false });
                let mut seen: std::collections::HashMap<Vec<u8>, MetadataWrapper> = Default::default();
                for d in docs {
                    let m = MetadataWrapper::Link(d.to_lib());
                    let Ok(b) = Metablock::new(m.clone(), &[&*sk]) else { continue };
                    let s = b.signatures[0].value().as_bytes().to_vec();
                    if let Some(prev) = seen.get(&s) {
                        if *prev != m {
                            o.fail("C05/bulk/collision", format!("two different links have equal signed bytes: {:?} and {:?}", prev, m), "different signed bytes");
                        }
                    } else {
                        seen.insert(s, m);
                    }
                }
            }
            Spec::Pair { a, b } => {
                o.class("pair");
                let same = a.same(b);
                if !same {
                    o.nontrivial(format!("{:?}|{:?}", a, b));
                }
                let ca = Json::canonicalize(&a.to_value());
                let cb = Json::canonicalize(&b.to_value());
                if let (Ok(ca), Ok(cb)) = (ca, cb) {
                    if !same && ca == cb {
                        o.fail("C05/canonicalize/collision", format!("{:?} and {:?} both canonicalize to {:?}", a, b, String::from_utf8_lossy(&ca)), "different bytes");
                    }
                    if same && ca != cb {
                        o.fail("C05/canonicalize/order-dependent", format!("{:?} vs {:?}", a, b), "equal bytes");
                    }
                }
            }
        }
        o
    }
    fn nontrivial_floor() -> f64 {
        0.3
    }
}
