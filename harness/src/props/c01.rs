//! C01 Only a layout validly signed by every trusted owner key is enforced.

use crate::fw::*;
use crate::gen::edit::*;
use crate::gen::keys::*;
use crate::gen::world::*;
use crate::world::*;
use proptest::prelude::*;
use serde::{Deserialize, Serialize};

pub struct C01;

#[derive(Clone, Debug, Serialize, Deserialize, PartialEq, Eq)]
pub enum CallerClass {
    Empty,
    ExactSigners,
    SubsetOfSigners,
    SupersetWithNonSigner,
    Disjoint,
    SameKeyTwoIds,
    RightKeyWrongId,
    AllOwners,
    /// the signers plus one more trusted key whose declared scheme is not implemented; the layout carries
    /// a (necessarily worthless) signature entry labelled with that key's id
    PlusUnknownSchemeKey,
}

#[derive(Clone, Debug, Serialize, Deserialize, PartialEq, Eq)]
pub enum SigFault {
    Corrupt(u8, Corrupt),
    SwapLabels(u8, u8),
    Relabel(u8, u8),
    EmptyList,
    Duplicate(u8),
    DropEntry(u8),
    /// a copy of an entry (same signature value) whose key id is written in upper-case hexadecimal
    DuplicateOtherCase(u8),
}

#[derive(Clone, Debug, Serialize, Deserialize)]
pub struct Spec {
    pub world: World,
    pub owners: Vec<KeySpec>,
    /// which owners actually sign (bit i = owner i)
    pub signed_mask: u8,
    pub caller: CallerClass,
    pub tamper: Option<TreeEdit>,
    pub fault: Option<SigFault>,
}

pub fn now_secs() -> i64 {
    chrono::Utc::now().timestamp()
}

fn caller_list(spec: &Spec, signers: &[KeySpec]) -> Vec<(Option<String>, KeySpec)> {
    let non_signers: Vec<KeySpec> = spec.owners.iter().filter(|k| !signers.contains(k)).cloned().collect();
    let outsider = stranger(7);
    match spec.caller {
        CallerClass::Empty => vec![],
        CallerClass::ExactSigners => own_ids(signers),
        CallerClass::AllOwners => own_ids(&spec.owners),
        CallerClass::SubsetOfSigners => own_ids(&signers[..signers.len().saturating_sub(1).max(1).min(signers.len())]),
        CallerClass::SupersetWithNonSigner => {
            let mut v = own_ids(signers);
            v.push((None, non_signers.first().cloned().unwrap_or(outsider)));
            v
        }
        CallerClass::Disjoint => {
            if non_signers.is_empty() {
                own_ids(&[outsider])
            } else {
                own_ids(&non_signers)
            }
        }
        CallerClass::SameKeyTwoIds => {
            let mut v = own_ids(signers);
            if let Some(k) = signers.first() {
                v.push((Some("ab".repeat(32)), k.clone()));
            }
            v
        }
        CallerClass::RightKeyWrongId => signers.iter().enumerate().map(|(i, k)| (Some(format!("{:064x}", i + 1)), k.clone())).collect(),
        CallerClass::PlusUnknownSchemeKey => own_ids(signers),
    }
}

impl Property for C01 {
    type Spec = Spec;
    fn id() -> &'static str {
        "C01"
    }
    fn rule() -> String {
        "Generated: valid worlds (0-3 steps with sufficient valid links, permissive rules, no inspections; 1-3 owner keys of mixed type) \
         x the subset of owners that actually signed x caller key set class {empty, exactly the signers, proper subset, superset with a \
         non-signer, disjoint, same key under two map ids, right key under a wrong map id, all owners} x one post-signing edit of the \
         signed JSON (any site: readme, expiry, step name, threshold, pubkeys, rule keyword/pattern, key table entry, order) x signature \
         fault {bit flipped, truncated, emptied, labels swapped, relabelled, list emptied, entry duplicated, entry dropped}. Oracle: \
         in_toto_verify = Ok only if the caller set is non-empty, pairwise distinct by intrinsic key id, and every caller key has an \
         intact signature (made by that key material, labelled with its id, uncorrupted, content not observably edited after signing) — \
         ground truth by construction. Non-trivial: the necessary condition is violated and the control world (same content freshly \
         and correctly signed by exactly the caller's keys) verifies Ok; distinct by (layout shape, signed mask, caller class, edit, fault, key kinds)."
            .into()
    }
    fn assumptions() -> Vec<String> {
        vec![
            "ring's verification is sound; forged = forgeries the generator can make".into(),
            "whether a post-signing edit is observable is decided by comparing the parsed metadata with what was signed".into(),
        ]
    }
    fn cases(tier: Tier) -> u64 {
        tier.pick(10_000, 200_000)
    }
    fn strategy(_tier: Tier) -> BoxedStrategy<Spec> {
        let cfg_cheap = Cfg { rules: RuleMode::PermissiveWithMatch, big_owners: true, ..Cfg::basic() };
        let cfg_mixed = Cfg { cheap: false, max_steps: 2, rules: RuleMode::PermissiveWithMatch, ..Cfg::basic() };
        (
            prop_oneof![4 => valid_world(cfg_cheap), 1 => valid_world(cfg_mixed)],
            1u8..8,
            prop_oneof![
                Just(CallerClass::Empty), Just(CallerClass::ExactSigners), Just(CallerClass::ExactSigners), Just(CallerClass::SubsetOfSigners),
                Just(CallerClass::SupersetWithNonSigner), Just(CallerClass::Disjoint), Just(CallerClass::SameKeyTwoIds),
                Just(CallerClass::RightKeyWrongId), Just(CallerClass::AllOwners), Just(CallerClass::AllOwners), Just(CallerClass::PlusUnknownSchemeKey),
            ],
            proptest::option::weighted(0.4, tree_edit()),
            proptest::option::weighted(
                0.4,
                prop_oneof![
                    (0u8..3, prop_oneof![any::<u16>().prop_map(Corrupt::BitFlip), Just(Corrupt::Truncate), Just(Corrupt::Empty)]).prop_map(|(i, c)| SigFault::Corrupt(i, c)),
                    (0u8..3, 0u8..3).prop_map(|(a, b)| SigFault::SwapLabels(a, b)),
                    (0u8..3, 0u8..3).prop_map(|(a, b)| SigFault::Relabel(a, b)),
                    Just(SigFault::EmptyList),
                    (0u8..3).prop_map(SigFault::Duplicate),
                    (0u8..3).prop_map(SigFault::DropEntry),
                    (0u8..6).prop_map(SigFault::DuplicateOtherCase),
                    (0u8..6).prop_map(SigFault::DuplicateOtherCase),
                ],
            ),
        )
            .prop_map(|((world, owners), signed_mask, caller, tamper, fault)| Spec { world, owners, signed_mask, caller, tamper, fault })
            .boxed()
    }
    fn concurrent() -> bool {
        true
    }
    fn check(spec: &Spec, env: &mut Env) -> Outcome {
        let mut o = Outcome::new();
        let n = spec.owners.len();
        let mut signers: Vec<KeySpec> = if n > 8 {
            // many owners: all sign (mask divisible by 3), or all but one - the one at a generated position
            let missing = if spec.signed_mask % 3 == 0 { usize::MAX } else { (spec.signed_mask as usize * 7) % n };
            o.class(if missing == usize::MAX { "many-owners:all-signed" } else { "many-owners:one-missing" });
            spec.owners.iter().enumerate().filter(|(i, _)| *i != missing).map(|(_, k)| k.clone()).collect()
        } else {
            spec.owners.iter().enumerate().filter(|(i, _)| spec.signed_mask >> (i % 8) & 1 == 1).map(|(_, k)| k.clone()).collect()
        };
        if signers.is_empty() {
            signers.push(spec.owners[0].clone());
        }
        let mut w = spec.world.clone();
        w.sigs = signers.iter().map(SigEntry::good).collect();
        w.tamper = spec.tamper.clone();
        if let Some(f) = &spec.fault {
            let len = w.sigs.len();
            match f {
                SigFault::Corrupt(i, c) => w.sigs[*i as usize % len].corrupt = Some(c.clone()),
                SigFault::SwapLabels(a, b) => {
                    let (a, b) = (*a as usize % len, *b as usize % len);
                    let la = w.sigs[a].signer.clone();
                    let lb = w.sigs[b].signer.clone();
                    w.sigs[a].label = Some(lb);
                    w.sigs[b].label = Some(la);
                }
                SigFault::Relabel(a, b) => {
                    let target = spec.owners[*b as usize % n].clone();
                    w.sigs[*a as usize % len].label = Some(target);
                }
                SigFault::EmptyList => w.sigs.clear(),
                SigFault::Duplicate(i) => {
                    let e = w.sigs[*i as usize % len].clone();
                    w.sigs.push(e);
                }
                SigFault::DropEntry(i) => {
                    w.sigs.remove(*i as usize % len);
                }
                SigFault::DuplicateOtherCase(i) => {
                    let mut e = w.sigs[*i as usize % len].clone();
                    e.label_upper = true;
                    if *i % 2 == 0 {
                        w.sigs.push(e);
                    } else {
                        w.sigs.insert(0, e);
                    }
                }
            }
        }
        let caller = caller_list(spec, &signers);
        let caller_keys: Vec<KeySpec> = caller.iter().map(|c| c.1.clone()).collect();
        let now = now_secs();
        let dir = env.fresh_dir("c01");
        let info = write_world(&w, &dir);
        let j = judge(&w, &info, &caller_keys, now, true);
        let mut info = info;
        let mut j = j;
        let r = if spec.caller == CallerClass::PlusUnknownSchemeKey {
            // append a signature entry for the unknown-scheme key and trust that key as well
            let u = unknown_scheme_key(spec.owners.last().unwrap());
            let uid = serde_json::to_value(u.key_id()).unwrap().as_str().unwrap().to_string();
            let genuine = w.sigs.first().map(|_| "00".to_string()).unwrap_or_else(|| "00".into());
            if let Ok(mut v) = serde_json::from_str::<serde_json::Value>(&info.layout_text) {
                if let Some(a) = v["signatures"].as_array_mut() {
                    a.push(serde_json::json!({"keyid": uid, "sig": genuine}));
                }
                info.layout_text = v.to_string();
            }
            j.violated.push(Cond::OwnerSig(uid));
            match serde_json::from_str::<in_toto::models::Metablock>(&info.layout_text) {
                Ok(block) => {
                    let mut keys = std::collections::HashMap::new();
                    for k in &caller_keys {
                        let pk = public(k);
                        keys.insert(pk.key_id().clone(), pk);
                    }
                    keys.insert(u.key_id().clone(), u);
                    run_verify_keys(&block, keys, &dir, None)
                }
                Err(_) => None,
            }
        } else {
            run_verify(&info, &caller, &dir, None)
        };
        let Some(r) = r else {
            o.class("layout-text-unparseable");
            let _ = std::fs::remove_dir_all(&dir);
            return o;
        };
        let owned: Vec<&Cond> = j.violated.iter().filter(|c| matches!(c, Cond::EmptyKeys | Cond::AliasedKeys | Cond::OwnerSig(_))).collect();
        o.class(format!("caller:{:?}", spec.caller));
        o.class(if r.is_ok() { "verdict:ok" } else { "verdict:err" });
        if let Some(f) = &spec.fault {
            o.class(format!("fault:{}", format!("{:?}", f).split('(').next().unwrap_or("")));
        }
        if info.layout.tampered {
            o.class("edit:observable");
        }
        for k in &signers {
            o.class(format!("key:{}", k.kind()));
        }
        if !owned.is_empty() {
            o.class("necessary-condition-violated");
            if r.is_ok() {
                let cause = match owned[0] {
                    Cond::EmptyKeys => "empty-key-set".to_string(),
                    Cond::AliasedKeys => "aliased-key-set".to_string(),
                    _ => {
                        if info.layout.tampered {
                            "content-edited-after-signing".to_string()
                        } else if spec.fault.is_some() {
                            format!("signature-fault-{}", format!("{:?}", spec.fault.as_ref().unwrap()).split('(').next().unwrap_or(""))
                        } else {
                            format!("caller-key-did-not-sign-{:?}", spec.caller)
                        }
                    }
                };
                o.fail(format!("C01/accepted/{}", cause),
                    format!("in_toto_verify = Ok although {:?}; signers {:?}, caller {:?}, fault {:?}, edit observable {}", owned, signers, caller, spec.fault, info.layout.tampered),
                    "Err");
            }
            // control: same content, correctly signed by exactly the caller's (distinct) keys
            let mut ctrl_keys: Vec<KeySpec> = vec![];
            for k in &caller_keys {
                if !ctrl_keys.iter().any(|x| key_id_str(x) == key_id_str(k)) {
                    ctrl_keys.push(k.clone());
                }
            }
            if ctrl_keys.is_empty() {
                ctrl_keys = spec.owners.clone();
            }
            let mut c = spec.world.clone();
            c.sigs = ctrl_keys.iter().map(SigEntry::good).collect();
            c.tamper = None;
            let cdir = env.fresh_dir("c01c");
            let (cr, _, _) = run_world(&c, &ctrl_keys, &cdir, now);
            o.evals = 2;
            if matches!(cr, Some(Ok(_))) {
                let kinds: Vec<&str> = signers.iter().map(|k| k.kind()).collect();
                o.nontrivial(format!("{}|{}|{:?}|{:?}|{:?}|{:?}|{:?}", spec.world.layout.steps.len(), spec.signed_mask, spec.caller, spec.tamper, spec.fault, kinds, owned));
            } else {
                o.class("control-not-ok");
            }
            let _ = std::fs::remove_dir_all(&cdir);
        } else {
            o.class("necessary-condition-holds");
            if r.is_ok() {
                o.class("positive:accepted");
            }
            // the same owners sign a *link*; handed to the verifier in place of a layout it must not be enforced
            if spec.signed_mask % 4 == 0 {
                if let Some(f) = spec.world.links.iter().find_map(|f| if let Body::Link { link, .. } = &f.body { Some(link.clone()) } else { None }) {
                    let sigs: Vec<SigEntry> = caller_keys.iter().map(SigEntry::good).collect();
                    let (text, _) = signed_text(&in_toto::models::MetadataWrapper::Link(f.to_lib()), &sigs, &None);
                    let fake = MatInfo { layout_text: text, ..Default::default() };
                    let ldir = env.fresh_dir("c01l");
                    if let Some(Ok(_)) = run_verify(&fake, &caller, &ldir, None) {
                        o.fail("C01/accepted/link-in-place-of-layout", "in_toto_verify = Ok for a validly signed link block", "Err: there is no layout content to enforce");
                    }
                    let _ = std::fs::remove_dir_all(&ldir);
                    o.class("link-in-place-of-layout");
                    o.evals += 1;
                }
            }
        }
        let _ = std::fs::remove_dir_all(&dir);
        o
    }
    fn nontrivial_floor() -> f64 {
        0.3
    }
    fn class_floors() -> Vec<(&'static str, f64)> {
        vec![("positive:accepted", 0.05), ("edit:observable", 0.04)]
    }
}
