//! C16 Layout, link and signed-block metadata survive a wire round trip unchanged.

use crate::fw::*;
use crate::gen::json::*;
use crate::gen::keys::*;
use crate::model::cjson::J;
use crate::props::c11::{doc_strategy, Doc};
use in_toto::models::{LayoutMetadata, LinkMetadata, Metablock, MetadataWrapper};
use proptest::prelude::*;
use serde::{Deserialize, Serialize};
use serde_json::{json, Value};

pub struct C16;

#[derive(Clone, Debug, Serialize, Deserialize)]
pub enum Spec {
    /// a value built through the builders
    Built { doc: Doc, signers: Vec<KeySpec>, as_block: bool },
    /// a wire document rendered by the harness (as a reference implementation could write it)
    Rendered { doc: Doc, spell: Vec<u8>, drop_optional: u8, offset_minutes: Option<i16>, as_block: bool },
    /// a minimal layout document whose `expires` member is the given RFC 3339 text (whole seconds)
    Expiry { text: String },
}

const EXPIRY_EDGE: &[&str] = &[
    "9999-12-31T23:59:59Z", "9999-12-31T23:59:59-00:01", "9999-12-31T23:59:59-23:59", "9999-12-31T23:59:59+23:59",
    "0000-01-01T00:00:00Z", "0000-01-01T00:00:00+00:01", "0000-01-01T00:00:00+23:59", "0001-01-01T00:00:00+23:59",
    "1970-01-01T00:00:00Z", "1969-12-31T23:59:59Z", "2016-12-31T23:59:60Z", "2016-12-31T23:59:60+05:30", "9999-12-31T23:59:60Z",
    "2024-02-29T12:00:00z", "2024-02-29t12:00:00-00:00", "2038-01-19T03:14:08Z", "2100-02-28T23:59:59+14:00",
];

fn expiry_text() -> BoxedStrategy<String> {
    (0i64..253_402_300_800, -1439i32..1440, any::<bool>())
        .prop_map(|(secs, off, z)| {
            let base = crate::gen::meta::rfc3339_z(secs);
            if z {
                base
            } else {
                format!("{}{}{:02}:{:02}", base.trim_end_matches('Z'), if off < 0 { '-' } else { '+' }, off.abs() / 60, off.abs() % 60)
            }
        })
        .boxed()
}

/// Documents as in C11, where a third of the layouts additionally list one RSA key under both of its
/// signature schemes (one key material, two key descriptions, two key ids) and/or an ECDSA key.
fn docs() -> BoxedStrategy<Doc> {
    (doc_strategy(true), 0u8..6, 0..RSA_POOL.len(), 0..ECDSA_POOL, any::<bool>())
        .prop_map(|(doc, mode, idx, ec, first512)| match doc {
            Doc::Layout(mut l) if mode < 2 => {
                l.keys.push(KeySpec::Rsa { idx, sha512: first512 });
                l.keys.push(KeySpec::Rsa { idx, sha512: !first512 });
                if mode == 1 {
                    l.keys.push(KeySpec::Ec { idx: ec });
                }
                Doc::Layout(l)
            }
            d => d,
        })
        .boxed()
}

fn feature_rich(doc: &Doc) -> bool {
    let strings = doc.strings();
    let non_ascii = strings.iter().any(|s| !s.is_ascii());
    match doc {
        Doc::Link(l) => {
            non_ascii
                || !l.byproducts.other.is_empty()
                || l.materials.values().chain(l.products.values()).any(|d| d.len() >= 2)
                || l.env.is_some()
        }
        Doc::Layout(l) => {
            non_ascii
                || l.keys.len() >= 2
                || l.steps.iter().any(|s| s.expected_materials.iter().chain(s.expected_products.iter()).any(|r| matches!(r, crate::gen::meta::RuleSpec::Match { in_src: Some(_), .. } | crate::gen::meta::RuleSpec::Match { in_dst: Some(_), .. })))
        }
    }
}

/// every member D carries must re-appear unchanged in `out` (out may carry extra members)
fn contained(d: &Value, out: &Value, path: &str) -> Result<(), String> {
    match (d, out) {
        (Value::Object(a), Value::Object(b)) => {
            for (k, v) in a {
                match b.get(k) {
                    None => return Err(format!("{}/{}: member lost", path, k)),
                    Some(w) => {
                        if k == "expires" {
                            let p = |x: &Value| x.as_str().and_then(|s| chrono::DateTime::parse_from_rfc3339(s).ok());
                            if p(v).is_none() || p(v) != p(w) {
                                return Err(format!("{}/expires: {} became {}", path, v, w));
                            }
                        } else {
                            contained(v, w, &format!("{}/{}", path, k))?;
                        }
                    }
                }
            }
            Ok(())
        }
        (Value::Array(a), Value::Array(b)) => {
            if a.len() != b.len() {
                return Err(format!("{}: array length {} became {}", path, a.len(), b.len()));
            }
            for (i, (x, y)) in a.iter().zip(b).enumerate() {
                contained(x, y, &format!("{}/{}", path, i))?;
            }
            Ok(())
        }
        (a, b) if a == b => Ok(()),
        (a, b) => Err(format!("{}: {} became {}", path, a, b)),
    }
}

fn generalise(path_msg: &str) -> String {
    // keep the member names but drop indices and data-dependent tails
    let head = path_msg.split(':').next().unwrap_or("");
    let parts: Vec<&str> = head.split('/').filter(|p| !p.is_empty() && p.parse::<usize>().is_err()).collect();
    let keep: Vec<&str> = parts.into_iter().filter(|p| ["signed", "signatures", "expires", "readme", "keys", "steps", "inspect", "name", "threshold", "pubkeys", "expected_command",
        "expected_materials", "expected_products", "run", "materials", "products", "environment", "byproducts", "command", "_type", "keyval", "public", "scheme", "keytype",
        "keyid_hash_algorithms", "return-value", "stdout", "stderr", "sig", "keyid"].contains(p)).collect();
    keep.join("/")
}

fn lib_writer<T: serde::Serialize>(v: &T, pretty: bool) -> Result<String, serde_json::Error> {
    use in_toto::interchange::{DataInterchange, Json, JsonPretty};
    let mut buf: Vec<u8> = vec![];
    let r = if pretty { JsonPretty::to_writer(&mut buf, v) } else { Json::to_writer(&mut buf, v) };
    match r {
        Ok(()) => String::from_utf8(buf).map_err(|e| serde::ser::Error::custom(e.to_string())),
        Err(e) => Err(serde::ser::Error::custom(e.to_string())),
    }
}

fn roundtrip<T: serde::Serialize + serde::de::DeserializeOwned + PartialEq + std::fmt::Debug>(v: &T, what: &str, o: &mut Outcome) {
    for (mode, ser) in [
        ("compact", serde_json::to_string(v)),
        ("pretty", serde_json::to_string_pretty(v)),
        ("Json::to_writer", lib_writer(v, false)),
        ("JsonPretty::to_writer", lib_writer(v, true)),
    ] {
        let text = match ser {
            Ok(t) => t,
            Err(e) => {
                o.fail(format!("C16/{}/serialize-error", what), format!("{}", e), "JSON text");
                return;
            }
        };
        let mut last_text = text.clone();
        for round in 0..8 {
            let back: T = match serde_json::from_str(&last_text) {
                Ok(b) => b,
                Err(e) => {
                    o.fail(format!("C16/{}/own-output-does-not-parse", what), format!("{} ({}): {}", mode, e, last_text), "parses back");
                    return;
                }
            };
            if &back != v {
                o.fail(format!("C16/{}/value-changed", what), format!("{} round {}: {:?} became {:?}", mode, round, v, back), "equal value");
                return;
            }
            if round == 0 {
                use in_toto::interchange::{DataInterchange, Json, JsonPretty};
                for (name, r) in [
                    ("Json::from_reader", Json::from_reader::<_, T>(std::io::Cursor::new(last_text.as_bytes())).map_err(|e| e.to_string())),
                    ("JsonPretty::from_reader", JsonPretty::from_reader::<_, T>(last_text.as_bytes()).map_err(|e| e.to_string())),
                    ("Json::from_slice", Json::from_slice::<T>(last_text.as_bytes()).map_err(|e| e.to_string())),
                ] {
                    match r {
                        Ok(b) if &b == v => {}
                        Ok(b) => o.fail(format!("C16/{}/{}-value-changed", what, name), format!("{}: {:?} became {:?}", mode, v, b), "equal value"),
                        Err(e) => o.fail(format!("C16/{}/{}-own-output-does-not-parse", what, name), format!("{} ({} bytes): {}", mode, last_text.len(), e), "parses back"),
                    }
                }
            }
            let again = match mode {
                "compact" => serde_json::to_string(&back),
                "pretty" => serde_json::to_string_pretty(&back),
                "Json::to_writer" => lib_writer(&back, false),
                _ => lib_writer(&back, true),
            }
            .expect("ser");
            if again != text {
                o.fail(format!("C16/{}/reserialisation-not-byte-identical", what),
                    format!("{} round {}: {} vs {}", mode, round, text, again), "byte-identical JSON");
                return;
            }
            last_text = again;
            o.evals += 1;
        }
    }
}

impl Property for C16 {
    type Spec = Spec;
    fn id() -> &'static str {
        "C16"
    }
    fn rule() -> String {
        "Generated: layouts, links and signed blocks built through the library's builders (every rule form with/without prefixes, \
         thresholds 0..u32::MAX, empty and non-empty collections, environment None/empty/entries, byproducts with every subset of the \
         optional fields plus extra fields, all key types (a third of the layouts list one RSA key under both of its signature schemes - one material, two key ids - and an ECDSA key), 1-2 digest algorithms per artifact, Unicode text everywhere, whole-second \
         expiries in years 1970-9999); independently rendered wire documents (member order, whitespace, escape spelling, optional members \
         absent, expiry spelled in another UTC offset, and - an eighth of them - the keywords of one artifact rule written in lower case or capitalised only, which the parser may refuse). Oracle: parse(ser(v)) == v for serde_json compact and pretty and for the library's own writers Json::to_writer and JsonPretty::to_writer, parsed with serde_json and with the library's Json::from_slice, Json::from_reader and JsonPretty::from_reader (documents reach several hundred KiB through the artifact-count tail); ser(parse(ser(v))) is \
         byte-identical, repeated 8 times on freshly parsed instances (samples hash-map orders); for rendered documents that parse, every \
         member of D re-appears unchanged in ser(parse(D)) (expiry compared as an instant; defaults may be added). Non-trivial: the value \
         uses an optional/variant feature (MATCH prefix, extra byproduct field, >=2 digests, non-ASCII text, >=2 keys, environment); distinct by document."
            .into()
    }
    fn assumptions() -> Vec<String> {
        vec![
            "key tables are consistent (ids equal the keys' own ids); reserved byproduct names are not used as extra fields; expiry within years 1970..9999 at whole seconds".into(),
            "hash-map iteration orders are sampled by 8 repetitions, not enumerated".into(),
        ]
    }
    fn cases(tier: Tier) -> u64 {
        tier.pick(180_000, 2_000_000)
    }
    fn strategy(_tier: Tier) -> BoxedStrategy<Spec> {
        prop_oneof![
            3 => (docs(), distinct_keys(0, 2, true), any::<bool>()).prop_map(|(doc, signers, as_block)| Spec::Built { doc, signers, as_block }),
            2 => (docs(), entropy(), any::<u8>(), proptest::option::weighted(0.5, -1439i16..1440), any::<bool>())
                .prop_map(|(doc, spell, drop_optional, offset_minutes, as_block)| Spec::Rendered { doc, spell, drop_optional, offset_minutes, as_block }),
            1 => expiry_text().prop_map(|text| Spec::Expiry { text }),
        ]
        .boxed()
    }
    fn enumerate(_tier: Tier, worker: usize, workers: usize) -> Box<dyn Iterator<Item = Spec>> {
        Box::new(EXPIRY_EDGE.iter().enumerate().filter(move |(i, _)| i % workers == worker).map(|(_, t)| Spec::Expiry { text: t.to_string() }))
    }
    fn concurrent() -> bool {
        true
    }
    fn check(spec: &Spec, _env: &mut Env) -> Outcome {
        let mut o = Outcome::new();
        match spec {
            Spec::Expiry { text } => {
                o.class("expiry-text");
                let d = json!({"_type": "layout", "expires": text, "readme": "", "keys": {}, "steps": [], "inspect": []});
                match serde_json::from_value::<LayoutMetadata>(d) {
                    Err(_) => o.class("expiry-text-rejected"),
                    Ok(v) => {
                        o.nontrivial(format!("E|{}", text));
                        roundtrip::<LayoutMetadata>(&v, "layout-expiry", &mut o);
                    }
                }
            }
            Spec::Built { doc, signers, as_block } => {
                o.class("built");
                if feature_rich(doc) {
                    o.nontrivial(format!("B|{:?}|{}", doc, as_block));
                }
                let meta = doc.to_lib();
                if *as_block {
                    let sks: Vec<_> = signers.iter().map(private).collect();
                    let refs: Vec<&in_toto::crypto::PrivateKey> = sks.iter().map(|k| &**k).collect();
                    match Metablock::new(meta, &refs) {
                        Ok(b) => roundtrip(&b, "block", &mut o),
                        Err(e) => o.fail("C16/block/sign-error", format!("{}", e), "a block"),
                    }
                } else {
                    match meta {
                        MetadataWrapper::Layout(l) => roundtrip::<LayoutMetadata>(&l, "layout", &mut o),
                        MetadataWrapper::Link(l) => roundtrip::<LinkMetadata>(&l, "link", &mut o),
                    }
                }
            }
            Spec::Rendered { doc, spell, drop_optional, offset_minutes, as_block } => {
                o.class("rendered");
                let mut d = match doc {
                    Doc::Link(l) => l.to_wire(),
                    Doc::Layout(l) => l.to_wire(),
                };
                // optional members absent
                if let Some(m) = d.as_object_mut() {
                    if drop_optional & 1 != 0 && m.get("environment") == Some(&Value::Null) {
                        m.remove("environment");
                    }
                    if drop_optional & 24 == 24 {
                        // keys carrying an explicitly empty keyid_hash_algorithms list, filed under the id of that description
                        if let (Some(keys), Doc::Layout(l)) = (m.get_mut("keys").and_then(|k| k.as_object_mut()), doc) {
                            if l.steps.iter().all(|s| s.pubkeys.is_empty()) {
                                let mut renamed = serde_json::Map::new();
                                for k in &l.keys {
                                    let d = crate::model::keyid::describe(k);
                                    let id = crate::model::keyid::reference_key_id_with_list(&d, Some(&[]));
                                    renamed.insert(id.clone(), json!({"keyid": id, "keytype": d.keytype, "scheme": d.scheme, "keyid_hash_algorithms": [], "keyval": {"private": "", "public": d.public}}));
                                }
                                *keys = renamed;
                                o.class("keys-with-empty-hash-algorithm-list");
                            }
                        }
                    }
                    if let Some(keys) = m.get_mut("keys").and_then(|k| k.as_object_mut()) {
                        for (_, k) in keys.iter_mut() {
                            if drop_optional & 2 != 0 {
                                k.as_object_mut().unwrap().remove("keyid");
                            }
                            if drop_optional & 4 != 0 {
                                k["keyval"].as_object_mut().unwrap().remove("private");
                            }
                        }
                    }
                    if let (Some(off), Some(Doc::Layout(l))) = (offset_minutes, Some(doc)) {
                        // same instant, other offset
                        let local = l.expires + (*off as i64) * 60;
                        if (0..253_402_300_800).contains(&local) {
                            let base = crate::gen::meta::rfc3339_z(local);
                            let sign = if *off < 0 { '-' } else { '+' };
                            let a = off.unsigned_abs();
                            m.insert("expires".into(), json!(format!("{}{}{:02}:{:02}", base.trim_end_matches('Z'), sign, a / 60, a % 60)));
                            o.class("expiry-with-offset");
                        }
                    }
                }
                // a rule whose keywords are spelled in another letter case: the parser may refuse it, but must not
                // accept it and write other keywords back
                let mut keyword_respelled = false;
                if drop_optional & 32 != 0 {
                    let capitalise_only = drop_optional & 64 != 0;
                    let rule = ["steps", "inspect"].iter().find_map(|sec| {
                        d.get(*sec).and_then(|a| a.as_array()).and_then(|items| {
                            items.iter().enumerate().find_map(|(i, it)| {
                                ["expected_materials", "expected_products"].iter().find_map(|side| {
                                    it.get(*side).and_then(|r| r.as_array()).filter(|r| !r.is_empty()).map(|r| (sec.to_string(), i, side.to_string(), (*drop_optional as usize >> 3) % r.len()))
                                })
                            })
                        })
                    });
                    if let Some((sec, i, side, ri)) = rule {
                        if let Some(parts) = d[&sec][i][&side][ri].as_array_mut() {
                            let is_match = parts.first().and_then(|x| x.as_str()) == Some("MATCH");
                            for (pos, el) in parts.iter_mut().enumerate() {
                                let Some(t) = el.as_str().map(|t| t.to_string()) else { continue };
                                let keyword = pos == 0 || (is_match && pos >= 2 && ["IN", "WITH", "FROM", "MATERIALS", "PRODUCTS"].contains(&t.as_str()));
                                if !keyword || (capitalise_only && pos != 0) {
                                    continue;
                                }
                                let respelled = if capitalise_only { format!("{}{}", &t[..1], t[1..].to_lowercase()) } else { t.to_lowercase() };
                                if respelled != t {
                                    *el = Value::String(respelled);
                                    keyword_respelled = true;
                                }
                            }
                        }
                    }
                    if keyword_respelled {
                        o.class("rule-keyword-in-another-letter-case");
                    }
                }
                let d = if *as_block { json!({"signatures": [], "signed": d}) } else { d };
                let text = spelling(&J::from_value(&d), spell);
                let out: Result<Value, String> = if *as_block {
                    serde_json::from_str::<Metablock>(&text).map_err(|e| e.to_string()).map(|b| serde_json::to_value(&b).unwrap())
                } else {
                    match doc {
                        Doc::Link(_) => serde_json::from_str::<LinkMetadata>(&text).map_err(|e| e.to_string()).map(|b| serde_json::to_value(&b).unwrap()),
                        Doc::Layout(_) => serde_json::from_str::<LayoutMetadata>(&text).map_err(|e| e.to_string()).map(|b| serde_json::to_value(&b).unwrap()),
                    }
                };
                match out {
                    Err(_) if keyword_respelled => o.class("respelled-keyword-refused"),
                    Err(e) => {
                        // reference-shaped documents are expected to parse; report as its own class of failure
                        o.fail("C16/rendered/reference-shaped-document-rejected", format!("{}: {}", e, text), "parses");
                    }
                    Ok(out) => {
                        o.nontrivial(format!("R|{}", text));
                        if let Err(msg) = contained(&d, &out, "") {
                            o.fail(format!("C16/rendered/field-altered/{}", generalise(&msg)), format!("{} (document {})", msg, text), "every accepted member unchanged");
                        }
                        // and the parsed value is what the builders give
                        let parsed_equal = if *as_block {
                            serde_json::from_str::<Metablock>(&text).map(|b| b.metadata == doc.to_lib()).unwrap_or(false)
                        } else {
                            serde_json::from_str::<MetadataWrapper>(&text).map(|m| m == doc.to_lib()).unwrap_or(false)
                        };
                        if !parsed_equal && !keyword_respelled && !o.classes.iter().any(|c| c == "keys-with-empty-hash-algorithm-list") {
                            o.fail("C16/rendered/parsed-value-differs-from-built-value", format!("document {}", text), "parse(D) == value built from the same specification");
                        }
                    }
                }
            }
        }
        o
    }
    fn nontrivial_floor() -> f64 {
        0.4
    }
}
