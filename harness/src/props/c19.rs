//! C19 Attestation statements and predicates are self-consistent and round-trip.

use crate::fw::*;
use crate::gen::attest::*;
use crate::gen::edit::*;
use crate::gen::meta::*;
use crate::model::cjson::J;
use in_toto::interchange::{DataInterchange, Json};
use in_toto::models::{PredicateVer, PredicateWrapper, StatementVer, StatementWrapper};
use in_toto::verif_hooks as h;
use proptest::prelude::*;
use serde::{Deserialize, Serialize};
use serde_json::Value;

pub struct C19;

#[derive(Clone, Debug, Serialize, Deserialize)]
pub enum Spec {
    Statement { doc: J },
    Predicate { doc: J },
    FromMeta { link: LinkSpec, pred: Option<J> },
}

fn pred_ver_name(v: PredicateVer) -> &'static str {
    match v {
        PredicateVer::LinkV0_2 => PRED_TYPES[0],
        PredicateVer::SLSAProvenanceV0_1 => PRED_TYPES[1],
        PredicateVer::SLSAProvenanceV0_2 => PRED_TYPES[2],
    }
}

fn count_optional(v: &Value) -> usize {
    match v {
        Value::Object(o) => {
            o.iter()
                .map(|(k, x)| {
                    (if ["recipe", "metadata", "materials", "invocation", "buildConfig", "env", "buildInvocationId", "buildStartedOn", "buildFinishedOn",
                        "completeness", "reproducible", "uri", "digest", "entryPoint", "arguments", "environment", "definedInMaterial", "configSource", "parameters"]
                        .contains(&k.as_str())
                    {
                        1
                    } else {
                        0
                    }) + count_optional(x)
                })
                .sum()
        }
        Value::Array(a) => a.iter().map(count_optional).sum(),
        _ => 0,
    }
}

fn has_timestamp(v: &Value) -> bool {
    match v {
        Value::Object(o) => o.iter().any(|(k, x)| k == "buildStartedOn" || k == "buildFinishedOn" || has_timestamp(x)),
        Value::Array(a) => a.iter().any(has_timestamp),
        _ => false,
    }
}

fn check_predicate_value(v: &Value, o: &mut Outcome, ctx: &str) -> Option<PredicateVer> {
    let wrapper = serde_json::from_value::<PredicateWrapper>(v.clone());
    let accepts = [
        serde_json::from_value::<h::LinkV02>(v.clone()).is_ok(),
        serde_json::from_value::<h::SLSAProvenanceV01>(v.clone()).is_ok(),
        serde_json::from_value::<h::SLSAProvenanceV02>(v.clone()).is_ok(),
    ];
    let n = accepts.iter().filter(|b| **b).count();
    match wrapper {
        Err(_) => {
            if n > 0 {
                o.fail(format!("C19/{}/wrapper-rejects-what-a-format-accepts", ctx), format!("formats accepting: {:?}; document {}", accepts, v), "accepted");
            }
            None
        }
        Ok(w) => {
            if n != 1 {
                o.fail(format!("C19/{}/not-exactly-one-format", ctx), format!("{} formats accept {}: {:?}", n, v, accepts), "exactly one");
            }
            let t = w.clone().into_trait();
            let ver = t.version();
            let idx = match ver {
                PredicateVer::LinkV0_2 => 0,
                PredicateVer::SLSAProvenanceV0_1 => 1,
                PredicateVer::SLSAProvenanceV0_2 => 2,
            };
            if !accepts[idx] {
                o.fail(format!("C19/{}/version-names-other-format", ctx), format!("version() = {:?} but that format rejects {}", ver, v), "version() names the accepting format");
            }
            match PredicateWrapper::judge_from_value(v) {
                Ok(j) if j == ver => {}
                other => o.fail(format!("C19/{}/judge-differs-from-version", ctx), format!("{:?} vs {:?}", other, ver), "equal"),
            }
            // canonical form round trip
            match t.to_bytes() {
                Err(e) => o.fail(format!("C19/{}/to_bytes-error", ctx), format!("{}", e), "bytes"),
                Ok(bytes) => match serde_json::from_slice::<PredicateWrapper>(&bytes) {
                    Err(e) => o.fail(format!("C19/{}/canonical-form-does-not-parse", ctx), format!("{}: {}", e, String::from_utf8_lossy(&bytes)), "parses back"),
                    Ok(back) => {
                        if back != w {
                            let sig = if has_timestamp(v) { "value-changed-with-timestamp" } else { "value-changed" };
                            o.fail(format!("C19/{}/roundtrip/{}", ctx, sig), format!("{:?} became {:?} via {}", w, back, String::from_utf8_lossy(&bytes)), "equal value");
                        }
                        match back.into_trait().to_bytes() {
                            Ok(b2) if b2 == bytes => {}
                            other => o.fail(format!("C19/{}/canonical-form-not-stable", ctx), format!("{:?}", other.map(|b| String::from_utf8_lossy(&b).to_string())), "same bytes"),
                        }
                    }
                },
            }
            Some(ver)
        }
    }
}

impl Property for C19 {
    type Spec = Spec;
    fn id() -> &'static str {
        "C19"
    }
    fn rule() -> String {
        "Generated: JSON documents shaped like naive / v0.1 statements and Link v0.2 / SLSA v0.1 / v0.2 predicates with every combination \
         of optional members (timestamps with offsets, fractions, lower-case t/z), x declared _type / predicateType strings (matching and \
         mismatching), a share with one tree edit; link metadata for the build-a-statement clause. Oracle: StatementWrapper::judge_from_value reports exactly the version that try_from_value parses (and an error when nothing parses); for every accepted document: \
         exactly one concrete format type accepts it (hook) and version() names it; to_bytes() re-parses to an equal value and \
         re-canonicalises to the same bytes; in a v0.1 statement the declared predicate type equals the version detected for the embedded \
         predicate; from_meta(link,None,Naive) carries name, materials, products, command, byproducts, env over unchanged and \
         from_meta(link,Some(p),V0_1) yields subject = products, predicate = p, predicateType = p's version. Non-trivial: the document is \
         accepted and carries >=2 optional members or a timestamp, or the declared type differs from the embedded format; distinct by document."
            .into()
    }
    fn assumptions() -> Vec<String> {
        vec!["concrete format types reached through the guarded re-exports".into()]
    }
    fn cases(tier: Tier) -> u64 {
        tier.pick(400_000, 2_000_000)
    }
    fn strategy(_tier: Tier) -> BoxedStrategy<Spec> {
        let edited = |s: BoxedStrategy<Value>| {
            (s, proptest::option::weighted(0.25, tree_edit()))
                .prop_map(|(v, e)| match e {
                    Some(e) => apply_edit(&v, &e).map(|(v, _)| v).unwrap_or(v),
                    None => v,
                })
                .boxed()
        };
        prop_oneof![
            2 => edited(statement_naive()).prop_map(|v| Spec::Statement { doc: J::from_value(&v) }),
            4 => edited(statement_v01().prop_map(|(v, _, _)| v).boxed()).prop_map(|v| Spec::Statement { doc: J::from_value(&v) }),
            4 => edited(predicate().prop_map(|(_, v)| v).boxed()).prop_map(|v| Spec::Predicate { doc: J::from_value(&v) }),
            2 => (link_spec(true), proptest::option::of(predicate().prop_map(|(_, v)| J::from_value(&v)))).prop_map(|(link, pred)| Spec::FromMeta { link, pred }),
        ]
        .boxed()
    }
    fn concurrent() -> bool {
        true
    }
    fn check(spec: &Spec, _env: &mut Env) -> Outcome {
        let mut o = Outcome::new();
        match spec {
            Spec::Predicate { doc } => {
                o.class("predicate");
                let v = doc.to_value();
                if check_predicate_value(&v, &mut o, "predicate").is_some() {
                    o.class("accepted");
                    if count_optional(&v) >= 2 || has_timestamp(&v) {
                        o.nontrivial(format!("P|{}", v));
                    }
                    if has_timestamp(&v) {
                        o.class("accepted-with-timestamp");
                    }
                }
            }
            Spec::Statement { doc } => {
                o.class("statement");
                let v = doc.to_value();
                let accepts = [serde_json::from_value::<h::StateNaive>(v.clone()).is_ok(), serde_json::from_value::<h::StateV01>(v.clone()).is_ok()];
                let n = accepts.iter().filter(|b| **b).count();
                // the public version probe agrees with the parser: the version it reports is the one that parses, and a
                // document no format accepts has no version
                let parsed_ver = StatementWrapper::try_from_value(v.clone()).ok().map(|w| w.into_trait().version());
                match (StatementWrapper::judge_from_value(&v), &parsed_ver) {
                    (Ok(j), Some(p)) if &j == p => {}
                    (Err(_), None) => {}
                    (j, p) => o.fail("C19/statement/judge-differs-from-parser", format!("judge_from_value = {:?}, parsed version = {:?} for {}", j.ok(), p, v), "the same version, or both refuse"),
                }
                match serde_json::from_value::<StatementWrapper>(v.clone()) {
                    Err(_) => {
                        if n > 0 {
                            o.fail("C19/statement/wrapper-rejects-what-a-format-accepts", format!("{:?} {}", accepts, v), "accepted");
                        }
                    }
                    Ok(w) => {
                        o.class("accepted");
                        if n != 1 {
                            o.fail("C19/statement/not-exactly-one-format", format!("{} formats accept {}", n, v), "exactly one");
                        }
                        let is_v01 = matches!(w, StatementWrapper::V0_1(_));
                        let t = w.into_trait();
                        let ver = t.version();
                        if (ver == StatementVer::V0_1) != is_v01 || !accepts[if is_v01 { 1 } else { 0 }] {
                            o.fail("C19/statement/version-names-other-format", format!("{:?} for {}", ver, v), "version() names the accepting format");
                        }
                        let mut mismatch = false;
                        if is_v01 {
                            // declared predicate type vs. embedded predicate
                            let declared = v["predicateType"].as_str().unwrap_or("").to_string();
                            match check_predicate_value(&v["predicate"], &mut o, "embedded-predicate") {
                                Some(pv) => {
                                    if pred_ver_name(pv) != declared {
                                        mismatch = true;
                                        o.fail("C19/statement/declared-predicate-type-differs-from-embedded",
                                            format!("predicateType = {} but the predicate is {}; document {}", declared, pred_ver_name(pv), v),
                                            "rejected, or declared type == embedded format");
                                    }
                                }
                                None => o.fail("C19/statement/embedded-predicate-not-a-predicate", format!("{}", v), "a predicate"),
                            }
                        }
                        if count_optional(&v) >= 2 || has_timestamp(&v) || mismatch {
                            o.nontrivial(format!("S|{}", v));
                        }
                        match t.to_bytes() {
                            Err(e) => o.fail("C19/statement/to_bytes-error", format!("{}", e), "bytes"),
                            Ok(bytes) => match serde_json::from_slice::<StatementWrapper>(&bytes) {
                                Err(e) => o.fail("C19/statement/canonical-form-does-not-parse", format!("{}: {}", e, String::from_utf8_lossy(&bytes)), "parses back"),
                                Ok(back) => {
                                    let orig = serde_json::from_value::<StatementWrapper>(v.clone()).unwrap();
                                    if back != orig {
                                        let sig = if has_timestamp(&v) { "value-changed-with-timestamp" } else { "value-changed" };
                                        o.fail(format!("C19/statement/roundtrip/{}", sig), format!("{:?} became {:?}", orig, back), "equal value");
                                    }
                                    match back.into_trait().to_bytes() {
                                        Ok(b2) if b2 == bytes => {}
                                        _ => o.fail("C19/statement/canonical-form-not-stable", "second canonical form differs", "same bytes"),
                                    }
                                }
                            },
                        }
                    }
                }
            }
            Spec::FromMeta { link, pred } => {
                o.class("from-meta");
                let meta = link.to_lib();
                let wire = link.to_wire();
                match pred {
                    None => {
                        o.nontrivial(format!("F|{:?}", link));
                        let st = StatementWrapper::from_meta(meta, None, StatementVer::Naive);
                        let bytes = st.into_trait().to_bytes().expect("to_bytes");
                        let tree: Value = serde_json::from_slice(&bytes).expect("json");
                        for (stmt_member, link_member) in [("name", "name"), ("materials", "materials"), ("products", "products"), ("command", "command"), ("byproducts", "byproducts"), ("env", "environment")] {
                            if tree.get(stmt_member) != wire.get(link_member) {
                                o.fail(format!("C19/from_meta/naive/{}-not-carried-over", stmt_member),
                                    format!("statement {} = {:?}, link {} = {:?}", stmt_member, tree.get(stmt_member), link_member, wire.get(link_member)), "equal");
                            }
                        }
                        if tree.get("_type") != Some(&Value::String("link".into())) {
                            o.fail("C19/from_meta/naive/type", format!("{:?}", tree.get("_type")), "link");
                        }
                    }
                    Some(p) => {
                        let pv = p.to_value();
                        let Ok(pw) = serde_json::from_value::<PredicateWrapper>(pv.clone()) else {
                            o.class("from-meta-predicate-rejected");
                            return o;
                        };
                        o.nontrivial(format!("F|{:?}|{}", link, pv));
                        let ver = pw.clone().into_trait().version();
                        let st = StatementWrapper::from_meta(meta, Some(pw.clone().into_trait()), StatementVer::V0_1);
                        let bytes = st.into_trait().to_bytes().expect("to_bytes");
                        let tree: Value = serde_json::from_slice(&bytes).expect("json");
                        if tree.get("subject") != wire.get("products") {
                            o.fail("C19/from_meta/v01/subject-differs-from-products", format!("{:?} vs {:?}", tree.get("subject"), wire.get("products")), "equal");
                        }
                        if tree.get("predicateType").and_then(|x| x.as_str()) != Some(pred_ver_name(ver)) {
                            o.fail("C19/from_meta/v01/predicate-type", format!("{:?} vs {}", tree.get("predicateType"), pred_ver_name(ver)), "equal");
                        }
                        match serde_json::from_value::<PredicateWrapper>(tree["predicate"].clone()) {
                            Ok(back) if back == pw => {}
                            other => o.fail("C19/from_meta/v01/predicate-changed", format!("{:?} vs {:?}", other, pw), "equal"),
                        }
                    }
                }
            }
        }
        let _ = Json::extension();
        o
    }
    fn nontrivial_floor() -> f64 {
        0.3
    }
    fn class_floors() -> Vec<(&'static str, f64)> {
        vec![("accepted-with-timestamp", 0.02)]
    }
}
