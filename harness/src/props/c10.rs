//! C10 Canonical JSON is deterministic, order-insensitive, loss-free and integer-only.

use crate::fw::*;
use crate::gen::json::*;
use crate::model::cjson::*;
use in_toto::interchange::{DataInterchange, Json};
use proptest::prelude::*;
use serde::{Deserialize, Serialize};

pub struct C10;

#[derive(Clone, Debug, Serialize, Deserialize)]
pub struct Spec {
    pub value: J,
    /// entropy streams, one per textual spelling of `value`
    pub spellings: Vec<Vec<u8>>,
    /// history: the member names and strings of `value` have first passed, in this process, through the
    /// library's *other* canonical writer (the signing encoding), as artifact paths of a link that is signed
    #[serde(default)]
    pub signed_first: bool,
}

fn collect_strings(v: &J, out: &mut Vec<String>) {
    match v {
        J::Str(s) => out.push(s.clone()),
        J::Arr(a) => a.iter().for_each(|x| collect_strings(x, out)),
        J::Obj(m) => {
            for (k, x) in m {
                out.push(k.clone());
                collect_strings(x, out);
            }
        }
        _ => {}
    }
}

/// Sign a link whose artifact paths, environment names and byproduct member names are `names`.
fn sign_link_with_names(names: &[String]) {
    use crate::gen::meta::*;
    let d: Digests = [("sha256".to_string(), DIGEST_POOL_256[0].to_string())].into();
    let mut link = LinkSpec {
        name: names.first().cloned().unwrap_or_default(),
        materials: Default::default(),
        products: Default::default(),
        env: Some(Default::default()),
        byproducts: ByprodSpec { return_value: Some(0), stdout: Some(String::new()), stderr: Some(String::new()), other: Default::default() },
        command: names.to_vec(),
    };
    for n in names.iter().take(12) {
        link.materials.insert(n.clone(), d.clone());
        link.products.insert(n.clone(), d.clone());
        if let Some(e) = link.env.as_mut() {
            e.insert(n.clone(), n.clone());
        }
    }
    let sk = crate::gen::keys::private(&crate::gen::keys::KeySpec::Ed { seed: 5, pkcs8: true });
    let _ = in_toto::models::Metablock::new(in_toto::models::MetadataWrapper::Link(link.to_lib()), &[&*sk]);
}

/// Exact integer value of a JSON number literal, if it is integer-valued.
pub fn exact_int(lit: &str) -> Option<String> {
    let (neg, rest) = match lit.strip_prefix('-') {
        Some(r) => (true, r),
        None => (false, lit),
    };
    let (mant, exp) = match rest.find(|c| c == 'e' || c == 'E') {
        Some(i) => (&rest[..i], rest[i + 1..].parse::<i64>().ok()?),
        None => (rest, 0i64),
    };
    let (ip, fp) = match mant.find('.') {
        Some(i) => (&mant[..i], &mant[i + 1..]),
        None => (mant, ""),
    };
    let mut digits: String = format!("{}{}", ip, fp);
    let mut e = exp - fp.len() as i64;
    if !digits.bytes().all(|b| b.is_ascii_digit()) || digits.is_empty() {
        return None;
    }
    // strip trailing zeros into the exponent
    while digits.len() > 1 && digits.ends_with('0') {
        digits.pop();
        e += 1;
    }
    let digits = digits.trim_start_matches('0').to_string();
    if digits.is_empty() {
        return Some("0".into());
    }
    if e < 0 {
        return None;
    }
    if e > 600 {
        return Some(format!("{}{}e{}", if neg { "-" } else { "" }, digits, e)); // astronomically large: never equal to output
    }
    Some(format!("{}{}{}", if neg { "-" } else { "" }, digits, "0".repeat(e as usize)))
}

fn in_64bit(s: &str) -> bool {
    s.parse::<i128>().map(|v| v >= i64::MIN as i128 && v <= u64::MAX as i128).unwrap_or(false)
}

/// Replace Num literals by their exact integer value; None when some literal is not an in-range integer.
fn integerised(v: &J) -> Option<J> {
    Some(match v {
        J::Num(s) => {
            let x = exact_int(s)?;
            if !in_64bit(&x) {
                return None;
            }
            J::Int(x)
        }
        J::Arr(a) => J::Arr(a.iter().map(integerised).collect::<Option<Vec<_>>>()?),
        J::Obj(o) => J::Obj(
            o.iter().map(|(k, x)| integerised(x).map(|y| (k.clone(), y))).collect::<Option<Vec<_>>>()?,
        ),
        other => other.clone(),
    })
}

fn must_reject(v: &J) -> bool {
    match v {
        J::Num(s) => exact_int(s).is_none(),
        J::Arr(a) => a.iter().any(must_reject),
        J::Obj(o) => o.iter().any(|(_, x)| must_reject(x)),
        _ => false,
    }
}

fn nontrivial(v: &J) -> bool {
    fn big_int(v: &J) -> bool {
        match v {
            J::Int(s) => s.parse::<i128>().map(|x| x.abs() > (1 << 31)).unwrap_or(true),
            J::Arr(a) => a.iter().any(big_int),
            J::Obj(o) => o.iter().any(|(_, x)| big_int(x)),
            _ => false,
        }
    }
    fn nonascii_key_or_multi(v: &J) -> bool {
        match v {
            J::Arr(a) => a.iter().any(nonascii_key_or_multi),
            J::Obj(o) => o.len() >= 2 || o.iter().any(|(k, x)| !k.is_ascii() || nonascii_key_or_multi(x)),
            _ => false,
        }
    }
    v.depth() >= 2 || big_int(v) || nonascii_key_or_multi(v) || v.has_num()
}

const SCALARS_PER_CASE: u32 = 64;

impl Property for C10 {
    type Spec = Spec;
    fn id() -> &'static str {
        "C10"
    }
    fn rule() -> String {
        "Generated: recursive JSON values (depth<=5, width<=6; integers over i64::MIN..u64::MAX with boundary bias; keys and strings \
         from Unicode text biased to escape-relevant characters; separate class with float/exponent/out-of-range literals), each rendered in \
         2-4 textual spellings (member order, whitespace, escape spelling incl. \\uXXXX upper/lower, surrogate pairs, \\/). Enumerated: all \
         1,112,064 Unicode scalar values, 64 per case, once as string content and once as object key. History: in a third of the cases all member names and strings of the value first pass through the library's other canonical writer (the signing encoding) as artifact paths, environment names and command arguments of a link that is signed in the same process. Json::to_writer must write exactly Json::canonicalize's bytes and fail exactly when it fails. Oracle: every spelling -> Json::from_slice \
         / from_reader -> Json::canonicalize gives identical bytes; an independent strict scanner accepts them (valid JSON, no whitespace, members \
         strictly increasing by code point, integers only) and decodes the original value; re-canonicalising the parsed output is idempotent; \
         documents with a non-integer number are rejected. Non-trivial: nesting>=2, or an object with >=2 members or a non-ASCII key, or an \
         integer beyond +-2^31, or a non-integer literal; distinct by value."
            .into()
    }
    fn assumptions() -> Vec<String> {
        vec![
            "serde_json is trusted as reader of the generated text (cross-checked: harness aborts if it rejects a spelling)".into(),
            "scanner and exact decimal arithmetic are the harness' own".into(),
        ]
    }
    fn cases(tier: Tier) -> u64 {
        tier.pick(900_000, 5_000_000)
    }
    fn strategy(_tier: Tier) -> BoxedStrategy<Spec> {
        prop_oneof![
            5 => (json_value(false), proptest::collection::vec(entropy(), 2..5)),
            1 => (json_value(true), proptest::collection::vec(entropy(), 1..3)),
        ]
        .prop_flat_map(|(value, spellings)| {
            // cardinality tail: the value wrapped in many levels of arrays / objects, or repeated many times side by side
            (prop_oneof![2 => Just(false), 1 => Just(true)], prop_oneof![120 => Just((0usize, 0usize)), 1 => (prop_oneof![Just(20usize), Just(63), Just(64), Just(65), Just(66), Just(100), Just(120)], Just(0usize)), 1 => (Just(0usize), prop_oneof![Just(17usize), Just(65), Just(129), Just(300)])], any::<u8>())
                .prop_map(move |(signed_first, (depth, width), shape)| {
                    let mut v = value.clone();
                    if width > 0 {
                        v = if shape % 2 == 0 { J::Arr(vec![v; width]) } else { J::Obj((0..width).map(|i| (format!("k{:04}", i), v.clone())).collect()) };
                    }
                    for d in 0..depth {
                        v = if (shape as usize + d) % 3 == 0 { J::Obj(vec![("n".to_string(), v)]) } else { J::Arr(vec![v]) };
                    }
                    Spec { value: v, spellings: spellings.clone(), signed_first }
                })
        })
        .boxed()
    }
    fn enumerate(_tier: Tier, worker: usize, workers: usize) -> Box<dyn Iterator<Item = Spec>> {
        let total = (0x110000u32 + SCALARS_PER_CASE - 1) / SCALARS_PER_CASE;
        Box::new((0..total).filter(move |i| (*i as usize) % workers == worker).filter_map(|i| {
            let s: String = (i * SCALARS_PER_CASE..(i + 1) * SCALARS_PER_CASE).filter_map(char::from_u32).collect();
            if s.is_empty() {
                return None;
            }
            let value = J::Obj(vec![
                (format!("k{}", s), J::Str(s.clone())),
                ("a".into(), J::Arr(s.chars().map(|c| J::Str(c.to_string())).collect())),
            ]);
            Some(Spec { value, spellings: vec![vec![], vec![4, 5, 3, 0, 1], vec![5, 4, 0, 3]], signed_first: i % 2 == 1 })
        }))
    }
    fn enumeration_exhaustive(_tier: Tier) -> Option<String> {
        Some("every Unicode scalar value as string content, as array element and inside an object key (64 per case)".into())
    }
    fn concurrent() -> bool {
        true
    }
    fn check(spec: &Spec, _env: &mut Env) -> Outcome {
        let mut o = Outcome::new();
        let v = &spec.value;
        if nontrivial(v) {
            o.nontrivial(format!("{:?}", v));
        }
        if spec.signed_first {
            let mut names = vec![];
            collect_strings(v, &mut names);
            if !names.is_empty() {
                sign_link_with_names(&names);
                o.class("strings-went-through-the-signing-encoding-first");
            }
        }
        let texts: Vec<String> = spec.spellings.iter().map(|e| spelling(v, e)).collect();
        o.evals = texts.len().max(1) as u64;
        let with_num = v.has_num();
        o.class(if with_num { "non-integer-literal" } else { "integer-only" });
        let mut outputs: Vec<Result<Vec<u8>, String>> = vec![];
        for t in &texts {
            // cross-check our own spelling with serde_json directly
            let direct: Result<serde_json::Value, _> = serde_json::from_str(t);
            let direct = match direct {
                Ok(d) => d,
                Err(e) => {
                    if with_num {
                        // e.g. 1e400 is "number out of range" for serde_json: a rejection, fine
                        outputs.push(Err(format!("parse: {}", e)));
                        continue;
                    }
                    panic!("harness: generated spelling is not valid JSON: {} in {:?}", e, t)
                }
            };
            let raw: serde_json::Value = match Json::from_slice(t.as_bytes()) {
                Ok(r) => r,
                Err(e) => {
                    o.fail("C10/from_slice/rejects-valid-json", format!("{:?} -> {}", t, e), "parsed value");
                    continue;
                }
            };
            let raw2: Result<serde_json::Value, _> = Json::from_reader(t.as_bytes());
            if raw2.as_ref().ok() != Some(&raw) || raw != direct {
                o.fail("C10/parse/channels-differ", format!("{:?}", t), "equal values from from_slice/from_reader/serde_json");
            }
            let canon = Json::canonicalize(&raw).map_err(|e| e.to_string());
            // the writer entry point must produce exactly the canonical bytes, or fail exactly when canonicalisation fails
            let mut written: Vec<u8> = vec![];
            match (Json::to_writer(&mut written, &raw), &canon) {
                (Ok(()), Ok(b)) if &written == b => {}
                (Err(_), Err(_)) => {}
                (Ok(()), Ok(b)) => o.fail("C10/to_writer/differs-from-canonical-bytes", format!("{:?} vs {:?}", String::from_utf8_lossy(&written), String::from_utf8_lossy(b)), "Json::to_writer writes Json::canonicalize's bytes"),
                (Ok(()), Err(e)) => o.fail("C10/to_writer/writes-what-canonicalize-rejects", format!("wrote {:?} although canonicalize fails with {}", String::from_utf8_lossy(&written), e), "Err"),
                (Err(e), Ok(_)) => o.fail("C10/to_writer/rejects-canonicalisable-value", format!("{}", e), "the canonical bytes"),
            }
            outputs.push(canon);
        }
        if !with_num {
            let mut first: Option<&Vec<u8>> = None;
            for (i, r) in outputs.iter().enumerate() {
                match r {
                    Err(e) => o.fail("C10/canonicalize/rejects-integer-only-value", format!("{:?} -> {}", texts[i], e), "canonical bytes"),
                    Ok(b) => {
                        if let Some(f) = first {
                            if f != b {
                                o.fail("C10/canonicalize/spelling-dependent",
                                    format!("{:?} vs {:?}", String::from_utf8_lossy(f), String::from_utf8_lossy(b)),
                                    "identical bytes for all spellings of one value");
                            }
                        } else {
                            first = Some(b);
                        }
                    }
                }
            }
            if let Some(b) = first {
                match scan_canonical(b) {
                    Err(e) => o.fail(format!("C10/canonical-form/{}", e.split(|c: char| c.is_ascii_digit() || c == ':').next().unwrap_or("").trim().replace(' ', "-")),
                        format!("{:?}: {}", String::from_utf8_lossy(b), e),
                        "valid JSON, no insignificant whitespace, members strictly increasing by code point, integers only"),
                    Ok(back) => {
                        if !back.same(v) {
                            o.fail("C10/canonical-form/value-changed", format!("{:?} decodes to {:?}", String::from_utf8_lossy(b), back), format!("{:?}", v));
                        }
                    }
                }
                // idempotence via the library's own reader
                match Json::from_slice::<serde_json::Value>(b).and_then(|r| Json::canonicalize(&r)) {
                    Ok(b2) if &b2 == b => {}
                    Ok(b2) => o.fail("C10/canonicalize/not-idempotent", format!("{:?} -> {:?}", String::from_utf8_lossy(b), String::from_utf8_lossy(&b2)), "same bytes"),
                    Err(e) => o.fail("C10/canonicalize/output-not-reparseable", format!("{:?}: {}", String::from_utf8_lossy(b), e), "parses back"),
                }
            }
        } else {
            let reject = must_reject(v);
            o.class(if reject { "must-reject" } else { "integer-valued-float-or-huge" });
            let expect = integerised(v);
            for (i, r) in outputs.iter().enumerate() {
                match r {
                    Err(_) => {}
                    Ok(b) => {
                        let okay = !reject
                            && match (&expect, scan_canonical(b)) {
                                (Some(e), Ok(back)) => back.same(e),
                                _ => false,
                            };
                        if !okay {
                            o.fail("C10/canonicalize/non-integer-not-rejected",
                                format!("{:?} -> {:?}", texts[i], String::from_utf8_lossy(b)),
                                "an error (no rounding or truncation)");
                        }
                    }
                }
            }
        }
        o
    }
    fn selftest(_env: &mut Env) -> Result<(), String> {
        crate::model::cjson::selftest()?;
        for (lit, want) in [("1.0", Some("1")), ("1e2", Some("100")), ("-0", Some("0")), ("1.5", None), ("2.5e1", Some("25")),
            ("2.5e0", None), ("100.0", Some("100")), ("1e-3", None), ("18446744073709551616", Some("18446744073709551616")), ("-0.0", Some("0"))] {
            if exact_int(lit).as_deref() != want {
                return Err(format!("exact_int({}) = {:?}", lit, exact_int(lit)));
            }
        }
        Ok(())
    }
    fn nontrivial_floor() -> f64 {
        0.3
    }
    fn class_floors() -> Vec<(&'static str, f64)> {
        vec![("must-reject", 0.01)]
    }
}
