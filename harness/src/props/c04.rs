//! C04 Signature thresholds count distinct authorized keys with valid signatures.

use crate::fw::*;
use crate::gen::json::Choices;
use crate::gen::keys::*;
use crate::gen::meta::*;
use crate::model::keyid::hex;
use in_toto::crypto::{PublicKey, Signature};
use in_toto::models::{Metablock, MetadataWrapper};
use proptest::prelude::*;
use serde::{Deserialize, Serialize};
use serde_json::json;

pub struct C04;

#[derive(Clone, Debug, Serialize, Deserialize, PartialEq, Eq)]
pub enum Entry {
    /// genuine signature by key k, labelled with k's id
    Valid(usize),
    /// a second, fresh signature by key k (randomised schemes give different bytes)
    Resign(usize),
    /// genuine signature by k with one bit flipped
    BitFlip(usize, u16),
    /// signature made by `signer`, labelled with the id of `label`
    Mislabeled { signer: usize, label: usize },
    /// genuine signature by k over *different* content
    OtherContent(usize),
    /// genuine signature by k whose key-id label is a case-respelling of k's id (upper case / mixed case)
    RespelledLabel(usize, bool),
}

#[derive(Clone, Debug, Serialize, Deserialize)]
pub struct Spec {
    pub content: LinkSpec,
    pub keys: Vec<KeySpec>,
    pub entries: Vec<Entry>,
    /// indices into `keys`, duplicates allowed
    pub authorized: Vec<usize>,
    pub threshold: u32,
    pub perm: Vec<u8>,
    /// additionally authorise key `i`'s material declared with an unimplemented scheme, and add a signature entry
    /// labelled with that key's id (true: the genuine signature bytes of key i; false: junk)
    #[serde(default)]
    pub unknown_scheme: Option<(usize, bool)>,
    /// key `i` is additionally authorised as a copy loaded from a JSON key document whose `keyid` member names a
    /// foreign id, and its genuine signature is repeated labelled with that foreign id (it must count for nobody)
    #[serde(default)]
    pub json_alias: Option<usize>,
}

fn entry(nkeys: usize) -> BoxedStrategy<Entry> {
    let k = 0..nkeys;
    prop_oneof![
        6 => k.clone().prop_map(Entry::Valid),
        1 => k.clone().prop_map(Entry::Resign),
        2 => (k.clone(), any::<u16>()).prop_map(|(k, b)| Entry::BitFlip(k, b)),
        2 => (k.clone(), k.clone()).prop_map(|(signer, label)| Entry::Mislabeled { signer, label }),
        1 => k.clone().prop_map(Entry::OtherContent),
        1 => (k, any::<bool>()).prop_map(|(k, upper)| Entry::RespelledLabel(k, upper)),
    ]
    .boxed()
}

fn make_sig(keyid: &str, bytes: &[u8]) -> Signature {
    serde_json::from_value(json!({"keyid": keyid, "sig": hex(bytes)})).expect("signature json")
}

fn permute<T: Clone>(v: &[T], c: &mut Choices) -> Vec<T> {
    let mut idx: Vec<usize> = (0..v.len()).collect();
    let mut out = vec![];
    while !idx.is_empty() {
        let k = c.next(idx.len());
        out.push(v[idx.remove(k)].clone());
    }
    out
}

pub fn spec_strategy(cheap: bool, max_keys: usize) -> BoxedStrategy<Spec> {
    (distinct_keys(1, max_keys, cheap), link_spec(false))
        .prop_flat_map(|(keys, content)| {
            let n = keys.len();
            (
                Just(keys),
                Just(content),
                proptest::collection::vec(entry(n), 0..=n + 2),
                proptest::collection::vec(0..n, 0..=n + 1),
                prop_oneof![3 => 0u32..=(n as u32 + 1), 1 => Just(u32::MAX), 1 => Just(1u32)],
                proptest::collection::vec(any::<u8>(), 0..8),
                proptest::option::weighted(0.15, (0..n, any::<bool>())),
            )
        })
        .prop_map(|(keys, content, entries, authorized, threshold, perm, unknown_scheme)| Spec { content, keys, entries, authorized, threshold, perm, unknown_scheme, json_alias: None })
        .boxed()
}

pub struct Built {
    pub block: Metablock,
    pub labels: Vec<usize>,
    pub genuine: Vec<bool>,
    /// entry carries a case-respelled label (may or may not be attributed to the key; never in addition)
    pub respelled: Vec<bool>,
}

pub fn build(spec: &Spec) -> Built {
    let meta = MetadataWrapper::Link(spec.content.to_lib());
    let mut other = spec.content.clone();
    other.name.push_str("-other");
    let other_meta = MetadataWrapper::Link(other.to_lib());
    let mut sigs: Vec<Signature> = vec![];
    let mut labels = vec![];
    let mut genuine = vec![];
    let mut respelled = vec![];
    for e in &spec.entries {
        let sign = |k: usize, m: &MetadataWrapper| -> Vec<u8> {
            let sk = private(&spec.keys[k]);
            Metablock::new(m.clone(), &[&*sk]).expect("sign").signatures[0].value().as_bytes().to_vec()
        };
        let (label, bytes, ok) = match e {
            Entry::Valid(k) | Entry::Resign(k) => (*k, sign(*k, &meta), true),
            Entry::BitFlip(k, bit) => {
                let mut b = sign(*k, &meta);
                let i = (*bit as usize) % (b.len() * 8);
                b[i / 8] ^= 1 << (i % 8);
                (*k, b, false)
            }
            Entry::Mislabeled { signer, label } => (*label, sign(*signer, &meta), signer == label),
            Entry::OtherContent(k) => (*k, sign(*k, &other_meta), false),
            Entry::RespelledLabel(k, _) => (*k, sign(*k, &meta), true),
        };
        let id = key_id_str(&spec.keys[label]);
        let id = match e {
            Entry::RespelledLabel(_, true) => id.to_uppercase(),
            Entry::RespelledLabel(_, false) => id.chars().enumerate().map(|(i, c)| if i % 2 == 0 { c.to_ascii_uppercase() } else { c }).collect(),
            _ => id,
        };
        respelled.push(matches!(e, Entry::RespelledLabel(..)) && id != key_id_str(&spec.keys[label]));
        sigs.push(make_sig(&id, &bytes));
        labels.push(label);
        genuine.push(ok);
    }
    Built { block: Metablock { signatures: sigs, metadata: meta }, labels, genuine, respelled }
}

impl Property for C04 {
    type Spec = Spec;
    fn id() -> &'static str {
        "C04"
    }
    fn rule() -> String {
        "Generated: a link as content; 1-4 keys of distinct material (all schemes); a signature list of entries in {genuine, second fresh \
         signature by the same key, one bit flipped, made by key A but labelled id(B), genuine over different content - that other block having been verified and accepted earlier in the same process}; an authorised key \
         list with duplicates/subsets/empty, optionally extended by a copy of one key loaded from a JSON document with a foreign keyid member (plus that key's signature relabelled with the foreign id); threshold in {0..n+1, u32::MAX}; a permutation of both lists. Enumerated: all configurations for \
         n<=2 keys with <=3 entries over {Valid, BitFlip, Mislabeled}, every authorised subset and threshold 0..3. Oracle: (only-if) Ok => t>=1 \
         and at least t distinct authorised keys have an entry labelled with their id that is a genuine signature by them over this content \
         (ground truth by construction); (converse, when no two entries share a key id) that count >= t>=1 => Ok, same verdict under the \
         permutation, returned metadata == block metadata. Non-trivial: >=2 entries or t>=2 or an adversarial entry kind; distinct by \
         (entries, authorised, threshold, key kinds). A quarter of the cases additionally authorise a copy of one key loaded from a JSON key document whose keyid member names a foreign id, and repeat that key's genuine signature labelled with the foreign id: it must count for nobody."
            .into()
    }
    fn assumptions() -> Vec<String> {
        vec!["ring's signature verification is sound; forged = the forgeries the generator can make (wrong key, wrong content, flipped bit, relabelled id)".into()]
    }
    fn cases(tier: Tier) -> u64 {
        tier.pick(240_000, 1_000_000)
    }
    fn strategy(_tier: Tier) -> BoxedStrategy<Spec> {
        // RSA keys are what a JSON key document describes by text (PEM); give the mixed-key class more weight here
        let small = (prop_oneof![3 => spec_strategy(true, 4), 2 => spec_strategy(false, 3)], proptest::option::weighted(0.25, 0usize..4)).prop_map(|(mut s, ja)| {
            s.json_alias = ja;
            s
        });
        // cardinality tail: 33-80 authorised keys, many of them signing, one of them (at a generated position, often
        // beyond the 64th) signing three times; threshold at or just above the number of distinct signers
        let big = (prop_oneof![Just(33usize), Just(64), Just(65), Just(70), Just(80)], link_spec(false), any::<u16>(), proptest::collection::vec(any::<bool>(), 80), 0u32..3)
            .prop_flat_map(|(n, content, pos, mask, dt)| {
                crate::gen::world::many_keys(n).prop_map(move |keys| {
                    let p = (pos as usize) % n;
                    let mut entries: Vec<Entry> = (0..n).filter(|i| mask[*i] && *i != p).map(Entry::Valid).collect();
                    entries.push(Entry::Valid(p));
                    entries.push(Entry::Valid(p));
                    entries.insert(0, Entry::Valid(p));
                    let distinct = entries.iter().filter_map(|e| if let Entry::Valid(k) = e { Some(*k) } else { None }).collect::<std::collections::BTreeSet<_>>().len() as u32;
                    Spec { content: content.clone(), keys, entries, authorized: (0..n).collect(), threshold: distinct + dt, perm: vec![], unknown_scheme: None, json_alias: None }
                })
            });
        // and: a block co-signed by 33-199 further keys nobody authorised, each once; a single authorised key, threshold 1
        let cosigned = (prop_oneof![Just(34usize), Just(40), Just(65), Just(70), Just(130), Just(200)], link_spec(false), any::<u16>(), proptest::collection::vec(any::<u8>(), 0..8))
            .prop_flat_map(|(n, content, pos, perm)| {
                crate::gen::world::many_keys(n).prop_map(move |keys| {
                    let a = (pos as usize) % n;
                    Spec { content: content.clone(), keys, entries: (0..n).map(Entry::Valid).collect(), authorized: vec![a], threshold: 1, perm: perm.clone(), unknown_scheme: None, json_alias: None }
                })
            });
        prop_oneof![60 => small.boxed(), 1 => big.boxed(), 1 => cosigned.boxed()].boxed()
    }
    fn enumerate(_tier: Tier, worker: usize, workers: usize) -> Box<dyn Iterator<Item = Spec>> {
        let keys = vec![KeySpec::Ed { seed: 1, pkcs8: true }, KeySpec::Ed { seed: 2, pkcs8: false }];
        let kinds: Vec<Entry> = vec![
            Entry::Valid(0), Entry::Valid(1), Entry::BitFlip(0, 3), Entry::BitFlip(1, 77),
            Entry::Mislabeled { signer: 0, label: 1 }, Entry::Mislabeled { signer: 1, label: 0 },
        ];
        let mut lists: Vec<Vec<Entry>> = vec![vec![]];
        for a in &kinds {
            lists.push(vec![a.clone()]);
            for b in &kinds {
                lists.push(vec![a.clone(), b.clone()]);
                for c in &kinds {
                    lists.push(vec![a.clone(), b.clone(), c.clone()]);
                }
            }
        }
        let auths: Vec<Vec<usize>> = vec![vec![], vec![0], vec![1], vec![0, 1], vec![1, 0], vec![0, 0], vec![0, 1, 1]];
        let content = LinkSpec { name: "s".into(), ..Default::default() };
        let mut out = vec![];
        let mut i = 0usize;
        for l in &lists {
            for a in &auths {
                for t in 0u32..4 {
                    if i % workers == worker {
                        out.push(Spec { content: content.clone(), keys: keys.clone(), entries: l.clone(), authorized: a.clone(), threshold: t, perm: vec![1, 2, 0], unknown_scheme: None, json_alias: None });
                    }
                    i += 1;
                }
            }
        }
        Box::new(out.into_iter())
    }
    fn enumeration_exhaustive(_tier: Tier) -> Option<String> {
        Some("2 keys x all signature lists of length <=3 over {valid, bit-flipped, mislabelled} x 7 authorised lists x thresholds 0..3".into())
    }
    fn concurrent() -> bool {
        true
    }
    fn check(spec: &Spec, _env: &mut Env) -> Outcome {
        let mut o = Outcome::new();
        let b = build(spec);
        let n = spec.keys.len();
        let adversarial = spec.entries.iter().any(|e| !matches!(e, Entry::Valid(_)));
        if spec.entries.len() >= 2 || spec.threshold >= 2 || adversarial {
            let kinds: Vec<&str> = spec.keys.iter().map(|k| k.kind()).collect();
            o.nontrivial(format!("{:?}|{:?}|{}|{:?}", spec.entries, spec.authorized, spec.threshold, kinds));
        }
        for k in &spec.keys {
            o.class(format!("key:{}", k.kind()));
        }
        // ground truth
        let mut good = std::collections::BTreeSet::new();
        for k in 0..n {
            if !spec.authorized.contains(&k) {
                continue;
            }
            // a respelled label may or may not be attributed to the key: the upper bound counts it (once per key)
            if (0..spec.entries.len()).any(|i| b.labels[i] == k && b.genuine[i]) {
                good.insert(k);
            }
        }
        let any_respelled = b.respelled.iter().any(|r| *r);
        let strict_good: std::collections::BTreeSet<usize> = (0..n)
            .filter(|k| spec.authorized.contains(k) && (0..spec.entries.len()).any(|i| b.labels[i] == *k && b.genuine[i] && !b.respelled[i]))
            .collect();
        let mut label_counts = std::collections::BTreeMap::new();
        for l in &b.labels {
            *label_counts.entry(*l).or_insert(0) += 1;
        }
        let once = label_counts.values().all(|c| *c == 1);
        let mut auth: Vec<PublicKey> = spec.authorized.iter().map(|i| public(&spec.keys[*i])).collect();
        // one case in five: an authorised key is handed over twice (it is still one key)
        if spec.perm.first().map(|x| x % 5 == 0).unwrap_or(false) && !auth.is_empty() {
            let again = auth[spec.perm.len() % auth.len()].clone();
            auth.push(again);
            o.class("authorised-key-listed-twice");
        }
        let mut b = b;
        if let Some((i, genuine)) = spec.unknown_scheme {
            let u = crate::world::unknown_scheme_key(&spec.keys[i % n]);
            let uid = serde_json::to_value(u.key_id()).unwrap().as_str().unwrap().to_string();
            let bytes = if genuine {
                let sk = private(&spec.keys[i % n]);
                Metablock::new(b.block.metadata.clone(), &[&*sk]).expect("sign").signatures[0].value().as_bytes().to_vec()
            } else {
                vec![0u8]
            };
            b.block.signatures.push(make_sig(&uid, &bytes));
            auth.push(u);
            o.class("unknown-scheme-key-authorised");
        }
        // history: every signature that was made over *different* content has been verified - and
        // accepted - over that other content earlier in this process
        if spec.entries.iter().any(|e| matches!(e, Entry::OtherContent(_))) {
            let mut other = spec.content.clone();
            other.name.push_str("-other");
            let other_meta = MetadataWrapper::Link(other.to_lib());
            for (i, e) in spec.entries.iter().enumerate() {
                if let Entry::OtherContent(k) = e {
                    let donor = Metablock { signatures: vec![b.block.signatures[i].clone()], metadata: other_meta.clone() };
                    let _ = donor.verify(1, [&public(&spec.keys[*k])]);
                }
            }
            o.class("transplanted-signature-verified-over-its-own-content-before");
        }
        // only for a key that is authorised anyway: the JSON-loaded copy must add nothing
        if let Some(i) = spec.json_alias.filter(|i| spec.authorized.contains(&(i % n))) {
            let k = &spec.keys[i % n];
            let foreign = "ab".repeat(32);
            let mut doc = crate::model::keyid::key_wire(k).1;
            doc["keyid"] = json!(foreign);
            if let Ok(alias) = serde_json::from_value::<PublicKey>(doc) {
                let sk = private(k);
                let bytes = Metablock::new(b.block.metadata.clone(), &[&*sk]).expect("sign").signatures[0].value().as_bytes().to_vec();
                b.block.signatures.push(make_sig(&foreign, &bytes));
                auth.push(alias);
                o.class("json-loaded-key-with-foreign-keyid-member");
            }
        }
        let t = spec.threshold;
        let res = b.block.verify(t, auth.iter());
        // the verdict does not depend on how the authorised keys are handed over (here: an iterator without a known length)
        let lazy = b.block.verify(t, auth.iter().filter(|_| true));
        if lazy.is_ok() != res.is_ok() {
            o.fail("C04/verdict-depends-on-iterator-kind", format!("verify(t={}) over a slice iterator: {:?}; over a filtered iterator: {:?}", t, res.as_ref().map(|_| ()), lazy.as_ref().map(|_| ())), "one verdict");
        }
        let enough = t >= 1 && good.len() as u64 >= t as u64;
        o.class(if res.is_ok() { "verdict:ok" } else { "verdict:err" });
        o.class(if enough { "truth:enough" } else { "truth:not-enough" });
        if res.is_ok() && !enough {
            let why = if t < 1 { "threshold-zero" } else if spec.entries.iter().any(|e| matches!(e, Entry::Resign(_))) || !once { "repeated-or-invalid-counted" } else { "invalid-counted" };
            o.fail(format!("C04/accepts/{}", why),
                format!("verify(t={}, authorised={:?}) = Ok with entries {:?}; genuinely signing authorised keys: {:?}", t, spec.authorized, spec.entries, good),
                "Err: fewer than t distinct authorised keys have a valid signature");
        }
        let enough_strict = t >= 1 && strict_good.len() as u64 >= t as u64;
        let once = once && !any_respelled;
        if once && enough && enough_strict {
            match &res {
                Err(e) => o.fail("C04/rejects/enough-valid-signatures",
                    format!("verify(t={}, authorised={:?}) = Err({}) with entries {:?}", t, spec.authorized, e, spec.entries),
                    "Ok: each key signs at most once and enough distinct authorised keys signed"),
                Ok(m) => {
                    if *m != b.block.metadata {
                        o.fail("C04/returns/different-content", "returned metadata differs from the block's", "the checked content");
                    }
                }
            }
        }
        if once {
            // permutation invariance
            let mut c = Choices::new(&spec.perm);
            let p_sigs = permute(&b.block.signatures, &mut c);
            let p_auth = permute(&auth, &mut c);
            let pb = Metablock { signatures: p_sigs, metadata: b.block.metadata.clone() };
            let r2 = pb.verify(t, p_auth.iter());
            if r2.is_ok() != res.is_ok() {
                o.fail("C04/order-dependent", format!("verdict {:?} becomes {:?} after permuting signatures/keys", res.is_ok(), r2.is_ok()), "order-independent verdict");
            }
            o.evals = 2;
        }
        o
    }
    fn nontrivial_floor() -> f64 {
        0.5
    }
    fn class_floors() -> Vec<(&'static str, f64)> {
        vec![("verdict:ok", 0.05), ("truth:not-enough", 0.2)]
    }
}
