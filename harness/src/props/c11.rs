//! C11 Signed bytes and key-id preimages match the in-toto reference encoding.

use crate::fw::*;
use crate::gen::keys::*;
use crate::gen::meta::*;
use crate::gen::text::*;
use crate::model::cjson::*;
use crate::model::keyid::*;
use in_toto::models::{Metablock, MetadataWrapper};
use proptest::prelude::*;
use serde::{Deserialize, Serialize};
use serde_json::json;

pub struct C11;

#[derive(Clone, Debug, Serialize, Deserialize)]
pub enum Doc {
    Link(LinkSpec),
    Layout(LayoutSpec),
}

#[derive(Clone, Debug, Serialize, Deserialize)]
pub struct Spec {
    pub doc: Doc,
    pub key: KeySpec,
    /// history in the same process before anything is signed: bit 0 = the document's JSON tree is
    /// written by the library's strict canonical writer (Json::canonicalize) first; bit 1 = a canonicalisation
    /// of the same tree plus a trailing non-integer member fails half-way first
    #[serde(default)]
    pub prelude: u8,
}

impl Doc {
    pub fn to_lib(&self) -> MetadataWrapper {
        match self {
            Doc::Link(l) => MetadataWrapper::Link(l.to_lib()),
            Doc::Layout(l) => MetadataWrapper::Layout(l.to_lib()),
        }
    }
    pub fn strings(&self) -> Vec<String> {
        fn walk(v: &serde_json::Value, out: &mut Vec<String>) {
            match v {
                serde_json::Value::String(s) => out.push(s.clone()),
                serde_json::Value::Array(a) => a.iter().for_each(|x| walk(x, out)),
                serde_json::Value::Object(o) => o.iter().for_each(|(k, x)| {
                    out.push(k.clone());
                    walk(x, out)
                }),
                _ => {}
            }
        }
        let mut out = vec![];
        walk(&serde_json::to_value(self).unwrap(), &mut out);
        out
    }
}

/// Place `s` into field number `field` of a small base document.
pub fn doc_with_text(field: usize, s: &str) -> Doc {
    let t = s.to_string();
    let mut link = LinkSpec {
        name: "step".into(),
        materials: [("a".to_string(), [("sha256".to_string(), DIGEST_POOL_256[0].to_string())].into())].into(),
        products: Default::default(),
        env: Some([("k".to_string(), "v".to_string())].into()),
        byproducts: ByprodSpec { return_value: Some(0), stdout: Some("o".into()), stderr: Some("e".into()), other: [("x".to_string(), "y".to_string())].into() },
        command: vec!["cmd".into(), "arg".into()],
    };
    let mut layout = LayoutSpec {
        expires: 4_000_000_000,
        readme: "r".into(),
        keys: vec![KeySpec::Ed { seed: 1, pkcs8: true }],
        steps: vec![StepSpec {
            name: "s".into(),
            threshold: 1,
            pubkeys: vec![KeySpec::Ed { seed: 1, pkcs8: true }],
            expected_command: vec!["c".into()],
            expected_materials: vec![RuleSpec::Allow("*".into())],
            expected_products: vec![RuleSpec::Match { pattern: "p".into(), in_src: Some("a".into()), products: true, in_dst: Some("b".into()), from: "s".into() }],
        }],
        inspect: vec![InspSpec { name: "i".into(), run: vec!["r".into()], expected_materials: vec![], expected_products: vec![] }],
    };
    match field % 16 {
        0 => link.name = t,
        1 => link.command[1] = t,
        2 => link.byproducts.stdout = Some(t),
        3 => link.byproducts.stderr = Some(t),
        4 => {
            if !["return-value", "stdout", "stderr"].contains(&s) {
                link.byproducts.other = [(t, "y".to_string())].into()
            }
        }
        5 => link.byproducts.other = [("x".to_string(), t)].into(),
        6 => link.env = Some([(t, "v".to_string())].into()),
        7 => link.env = Some([("k".to_string(), t)].into()),
        8 => link.materials = [(t, [("sha256".to_string(), DIGEST_POOL_256[0].to_string())].into())].into(),
        9 => {
            layout.readme = t;
            return Doc::Layout(layout);
        }
        10 => {
            layout.steps[0].name = t;
            return Doc::Layout(layout);
        }
        11 => {
            layout.steps[0].expected_materials = vec![RuleSpec::Disallow(t)];
            return Doc::Layout(layout);
        }
        12 => {
            layout.inspect[0].run = vec!["sh".into(), t];
            return Doc::Layout(layout);
        }
        13 => {
            layout.steps[0].expected_command = vec![t];
            return Doc::Layout(layout);
        }
        14 => {
            layout.steps[0].expected_products = vec![RuleSpec::Match { pattern: "p".into(), in_src: Some(t), products: false, in_dst: None, from: "s".into() }];
            return Doc::Layout(layout);
        }
        _ => {
            layout.inspect[0].name = t;
            return Doc::Layout(layout);
        }
    }
    Doc::Link(link)
}

pub fn doc_strategy(cheap_keys: bool) -> BoxedStrategy<Doc> {
    prop_oneof![
        3 => link_spec(true).prop_map(Doc::Link),
        2 => layout_spec(true, cheap_keys).prop_map(Doc::Layout),
        3 => (0usize..16, text(6)).prop_map(|(f, s)| doc_with_text(f, &s)),
    ]
    .boxed()
}

pub fn interesting(s: &str) -> bool {
    s.chars().any(|c| !(' '..='~').contains(&c) || c == '\\' || c == '"')
}

const SCALARS_PER_CASE: u32 = 256;

impl Property for C11 {
    type Spec = Spec;
    fn id() -> &'static str {
        "C11"
    }
    fn rule() -> String {
        "Generated: links and layouts (library builders) with Unicode text biased to escape-relevant characters in names, command \
         arguments, byproducts (stdout/stderr/extra fields), readme, environment keys/values, artifact paths, step/inspection names, \
         rule patterns and prefixes; keys of all types. Enumerated: the full two-character table over {\\ \" n LF t TAB u /} in each of 16 \
         string fields, and every Unicode scalar value (256 per case) in captured tool output and in an environment key. Oracle: (1) a \
         signature made with ring directly over OLPC-canonical-JSON(to_value(metadata)) (harness encoder: only \\ and \" escaped, raw UTF-8) \
         and attached to the wire document is accepted by Metablock::verify; (2) every signing entry point (Metablock::new, MetablockBuilder::sign, LinkMetadataBuilder::signed::<Json> and ::<JsonPretty>) signs those bytes, and the Ed25519 signature the library makes equals ring's \
         signature over those reference bytes; (3) key_id == hex(sha256(OLPC(key description))). Non-trivial: some signed string contains a \
         character outside printable ASCII or a backslash/quote; distinct by document. History: before anything is signed, in half of the cases the same JSON tree is first written by the strict canonical writer (Json::canonicalize) and/or a canonicalisation of the tree extended by a trailing member 1.5 fails half-way, in the same process."
            .into()
    }
    fn assumptions() -> Vec<String> {
        vec![
            "OLPC canonical JSON transcribed from securesystemslib encode_canonical; anchored by the self-test: the Python-signed fixtures in /repo/tests/test_verifylib verify with ring over the harness' encoding".into(),
            "ring signs/verifies correctly".into(),
        ]
    }
    fn cases(tier: Tier) -> u64 {
        tier.pick(200_000, 1_000_000)
    }
    fn strategy(_tier: Tier) -> BoxedStrategy<Spec> {
        (doc_strategy(false), prop_oneof![8 => ed_key(), 1 => any_key()], prop_oneof![3 => Just(0u8), 1 => Just(1u8), 1 => Just(2u8), 1 => Just(3u8)]).prop_map(|(doc, key, prelude)| Spec { doc, key, prelude }).boxed()
    }
    fn enumerate(_tier: Tier, worker: usize, workers: usize) -> Box<dyn Iterator<Item = Spec>> {
        let table = two_char_table();
        let mut specs: Vec<Spec> = vec![];
        for f in 0..16 {
            for s in &table {
                specs.push(Spec { doc: doc_with_text(f, s), key: KeySpec::Ed { seed: 2, pkcs8: false }, prelude: (f % 4) as u8 });
            }
        }
        let total = (0x110000u32 + SCALARS_PER_CASE - 1) / SCALARS_PER_CASE;
        let it2 = (0..total).filter_map(|i| {
            let s: String = (i * SCALARS_PER_CASE..(i + 1) * SCALARS_PER_CASE).filter_map(char::from_u32).collect();
            if s.is_empty() {
                return None;
            }
            let mut d = match doc_with_text(2, &s) {
                Doc::Link(l) => l,
                _ => unreachable!(),
            };
            d.env = Some([(s.clone(), "v".to_string())].into());
            Some(Spec { doc: Doc::Link(d), key: KeySpec::Ed { seed: 3, pkcs8: true }, prelude: (i % 4) as u8 })
        });
        // sibling member names: one common stem, then two different characters from an ordering-critical alphabet
        // (escaped characters, their escape introducer, neighbours of both in code-point order, encoding-range edges)
        const SIBLING: &[&str] = &["\"", "\\", "!", "#", "/", "0", "A", "[", "]", "a", "\u{7f}", "é", "\u{ffff}", "\u{10000}", "\n"];
        let mut pairs: Vec<Spec> = vec![];
        for tail in ["z", "é"] {
        for (xi, x) in SIBLING.iter().enumerate() {
            for (yi, y) in SIBLING.iter().enumerate() {
                if xi == yi {
                    continue;
                }
                // (second round: the first name ends in a non-ASCII character, the second stays as it is)
                let x = &format!("{}{}", x, if tail == "z" { "" } else { tail });
                let mut d = match doc_with_text(2, "siblings") {
                    Doc::Link(l) => l,
                    _ => unreachable!(),
                };
                d.env = Some([(format!("k{}z", x), "1".to_string()), (format!("k{}z", y), "2".to_string())].into());
                let dg: Digests = [("sha256".to_string(), DIGEST_POOL_256[0].to_string())].into();
                d.products = [(format!("release/{}notes", x), dg.clone()), (format!("release/{}notes", y), dg.clone())].into();
                d.byproducts.other = [(format!("x{}", x), "1".to_string()), (format!("x{}", y), "2".to_string())].into();
                pairs.push(Spec { doc: Doc::Link(d), key: KeySpec::Ed { seed: 4, pkcs8: (xi + yi) % 2 == 0 }, prelude: ((xi + yi) % 4) as u8 });
            }
        }
        }
        Box::new(specs.into_iter().chain(pairs).chain(it2).enumerate().filter(move |(i, _)| i % workers == worker).map(|(_, s)| s))
    }
    fn enumeration_exhaustive(_tier: Tier) -> Option<String> {
        Some("64 two-character combinations over {\\ \" n LF t TAB u /} x 16 string fields; all 210 ordered pairs of sibling member names (common stem, then one of 15 ordering-critical characters; once more with the first name ending in a non-ASCII character) in environment, products and extra byproducts; all Unicode scalar values in stdout and an environment key".into())
    }
    fn concurrent() -> bool {
        true
    }
    fn check(spec: &Spec, _env: &mut Env) -> Outcome {
        let mut o = Outcome::new();
        let meta = spec.doc.to_lib();
        let strings = spec.doc.strings();
        if strings.iter().any(|s| interesting(s)) {
            o.nontrivial(format!("{:?}", spec.doc));
        }
        o.class(match spec.doc {
            Doc::Link(_) => "link",
            Doc::Layout(_) => "layout",
        });
        o.class(format!("key:{}", spec.key.kind()));
        for s in &strings {
            if s.chars().any(|c| (c as u32) < 0x20 && c != '\n') {
                o.class("has-control-char");
                break;
            }
        }
        if strings.iter().any(|s| s.contains("\\n")) {
            o.class("has-backslash-n");
        }
        let tree = serde_json::to_value(&meta).expect("to_value");
        let reference = olpc_value(&tree).expect("integer-only metadata");
        if spec.prelude & 1 != 0 {
            use in_toto::interchange::{DataInterchange, Json};
            let _ = Json::canonicalize(&tree);
            o.class("prelude:strict-canonical-writer-first");
        }
        if spec.prelude & 2 != 0 {
            use in_toto::interchange::{DataInterchange, Json};
            let mut t2 = tree.clone();
            if let Some(m) = t2.as_object_mut() {
                m.insert("~wall-clock-seconds".into(), json!(1.5));
            }
            let _ = Json::canonicalize(&t2);
            o.class("prelude:failed-canonicalisation-first");
        }
        let sk = private(&spec.key);
        let pk = sk.public().clone();

        // (3) key id
        let want_id = reference_key_id(&spec.key);
        let got_id = key_id_str(&spec.key);
        if want_id != got_id {
            o.fail(format!("C11/keyid/{}", spec.key.kind()), format!("key_id = {}", got_id), format!("hex(sha256(olpc(description))) = {}", want_id));
        }

        // (3b) the same key declared with other key-id hash-algorithm lists (absent, empty, one entry): the id is that of its own description
        {
            use crate::model::keyid::{describe, reference_key_id_with_list};
            let d = describe(&spec.key);
            for list in [None, Some(vec![]), Some(vec!["sha256"]), Some(vec!["sha512", "sha256"])] {
                let want = reference_key_id_with_list(&d, list.as_deref());
                let mut doc = json!({"keytype": d.keytype, "scheme": d.scheme, "keyval": {"public": d.public}});
                if let Some(l) = &list {
                    doc["keyid_hash_algorithms"] = json!(l);
                }
                if let Ok(k) = serde_json::from_value::<in_toto::crypto::PublicKey>(doc) {
                    let got = serde_json::to_value(k.key_id()).unwrap().as_str().unwrap_or("").to_string();
                    if got != want {
                        o.fail(format!("C11/keyid/list-{}", list.as_ref().map(|l| l.len().to_string()).unwrap_or_else(|| "absent".into())), format!("key_id = {} for keyid_hash_algorithms {:?}", got, list), format!("hex(sha256(olpc(description))) = {}", want));
                    }
                }
            }
        }

        // (1) reference-made signature must verify here
        let sig = ring_sign(&spec.key, &reference);
        let block = json!({"signatures": [{"keyid": got_id, "sig": hex(&sig)}], "signed": tree});
        match serde_json::from_value::<Metablock>(block) {
            Err(e) => {
                // not this property's business (C16/C17) unless the document is plain: record as class
                o.class("wire-document-does-not-parse");
                let _ = e;
            }
            Ok(mb) => {
                // (a parser that alters what it reads re-encodes other bytes than the reference signer signed)
                let altered = mb.metadata != meta;
                if altered {
                    o.class("reparsed-metadata-differs");
                }
                if let Err(e) = mb.verify(1, [&pk]) {
                    o.fail(if altered { "C11/verify/reference-signature-rejected/parsed-metadata-differs-from-document" } else { "C11/verify/reference-signature-rejected" },
                        format!("signature over reference bytes {:?} rejected: {}", String::from_utf8_lossy(&reference), e),
                        "accepted (reference implementation signs OLPC canonical JSON)");
                }
            }
        }

        // (2) library-made signature verifies over the reference bytes (and equals ring's for Ed25519)
        match Metablock::new(meta.clone(), &[&*sk]) {
            Err(e) => o.fail("C11/sign/error", format!("{}", e), "a signed block"),
            Ok(mb) => {
                let libsig = mb.signatures[0].value().as_bytes().to_vec();
                if !ring_verify(&spec.key, &reference, &libsig) {
                    o.fail("C11/sign/not-over-reference-bytes",
                        format!("library signature does not verify over reference bytes {:?}", String::from_utf8_lossy(&reference)),
                        "library signs the reference encoding");
                } else if spec.key.is_deterministic() && libsig != sig {
                    o.fail("C11/sign/ed25519-signature-differs", "library Ed25519 signature != ring signature over reference bytes", "equal");
                }
            }
        }
        // (2b) the other signing entry points sign the same reference bytes
        {
            use in_toto::interchange::{Json, JsonPretty};
            use in_toto::models::MetablockBuilder;
            let mut others: Vec<(&str, Result<Metablock, String>)> = vec![(
                "MetablockBuilder::sign",
                MetablockBuilder::from_metadata(meta.clone().into_trait()).sign(&[&*sk]).map(|b| b.build()).map_err(|e| e.to_string()),
            )];
            if let Doc::Link(l) = &spec.doc {
                others.push(("LinkMetadataBuilder::signed::<Json>", l.to_builder().signed::<Json>(&sk).map_err(|e| e.to_string())));
                others.push(("LinkMetadataBuilder::signed::<JsonPretty>", l.to_builder().signed::<JsonPretty>(&sk).map_err(|e| e.to_string())));
            }
            for (path, r) in others {
                match r {
                    Err(e) => o.fail(format!("C11/sign/error/{}", path), e, "a signed block"),
                    Ok(mb) => {
                        o.evals += 1;
                        let libsig = mb.signatures.first().map(|s| s.value().as_bytes().to_vec()).unwrap_or_default();
                        if mb.metadata == meta && !ring_verify(&spec.key, &reference, &libsig) {
                            o.fail(format!("C11/sign/not-over-reference-bytes/{}", path), format!("signature made through {} does not verify over the reference bytes", path), "every signing entry point signs the reference encoding");
                        }
                    }
                }
            }
        }
        o
    }
    fn selftest(_env: &mut Env) -> Result<(), String> {
        crate::model::cjson::selftest()?;
        crate::model::keyid::selftest()?;
        // anchor: Python-made fixtures verify over the harness' OLPC encoding with ring directly
        let alice = std::fs::read_to_string("/repo/tests/test_verifylib/workdir/alice.pub").map_err(|e| e.to_string())?;
        let der = pem::parse(alice.as_bytes()).map_err(|e| e.to_string())?;
        let pk = in_toto::crypto::PublicKey::from_spki(der.contents(), in_toto::crypto::SignatureScheme::RsaSsaPssSha256).map_err(|e| e.to_string())?;
        let text = std::fs::read_to_string("/repo/tests/test_verifylib/workdir/root.layout").map_err(|e| e.to_string())?;
        let v: serde_json::Value = serde_json::from_str(&text).map_err(|e| e.to_string())?;
        let bytes = olpc_value(&v["signed"])?;
        let sig = unhex(v["signatures"][0]["sig"].as_str().ok_or("sig")?);
        let ok = ring::signature::UnparsedPublicKey::new(&ring::signature::RSA_PSS_2048_8192_SHA256, pk.as_bytes()).verify(&bytes, &sig).is_ok();
        if !ok {
            return Err("OLPC model: Python-made layout signature does not verify over the harness' encoding".into());
        }
        // links with captured tool output (line feeds)
        let mut n = 0;
        for e in std::fs::read_dir("/repo/tests/test_verifylib/links").map_err(|e| e.to_string())?.flatten() {
            let t = std::fs::read_to_string(e.path()).map_err(|e| e.to_string())?;
            let v: serde_json::Value = serde_json::from_str(&t).map_err(|e| e.to_string())?;
            if v["signed"]["_type"] != "link" {
                continue;
            }
            let _ = olpc_value(&v["signed"])?;
            n += 1;
        }
        if n == 0 {
            return Err("no link fixtures found".into());
        }
        Ok(())
    }
    fn nontrivial_floor() -> f64 {
        0.4
    }
}
