//! C13 The verification verdict is a deterministic function of its inputs.

use crate::fw::*;
use crate::gen::keys::*;
use crate::gen::meta::*;
use crate::gen::world::*;
use crate::props::c01::now_secs;
use crate::world::*;
use proptest::prelude::*;
use serde::{Deserialize, Serialize};

pub struct C13;

#[derive(Clone, Debug, Serialize, Deserialize, PartialEq, Eq)]
pub enum Variation {
    /// extra product in the variant link
    ExtraProduct,
    /// a digest differs
    OtherDigest,
    /// only command / byproducts differ (reaches the summary through the last step)
    OtherByproducts,
    /// a material differs
    ExtraMaterial,
}

#[derive(Clone, Debug, Serialize, Deserialize)]
pub struct Spec {
    pub world: World,
    pub owners: Vec<KeySpec>,
    pub step: u8,
    /// how many extra counted links (1..3) and how each differs
    pub variants: Vec<Variation>,
    /// add a rule that only one of the differing links violates
    pub rule_trap: bool,
    /// order in which the files of the link directory are created
    pub creation_order: Vec<u8>,
    /// an artifact recorded with two digest algorithms that agree on one and differ on the other, tied by MATCH + DISALLOW
    #[serde(default)]
    pub two_digest_match: bool,
    /// keep the step multi-party (threshold 2): differing links must then be *rejected* every time
    #[serde(default)]
    pub multi_party: bool,
    /// the step is delegated by two functionaries (threshold 1), and one of the two sub-layouts
    /// does not verify (0: inner link missing, 1: expired, 2: inner rule fails, 3: inner link by a stranger)
    #[serde(default)]
    pub surplus_sub: Option<u8>,
    /// the layout and every link carry additional valid signatures by keys nobody trusts or authorises
    #[serde(default)]
    pub cosigned: bool,
    /// the first differing link is signed by the base link's own key material under its other key id
    #[serde(default)]
    pub twin: bool,
    /// with `cosigned`: 70 (not 3) further valid signatures by untrusted keys on the layout and on every link
    #[serde(default)]
    pub many_cosigners: bool,
    /// the key table holds two keys whose ids share the eight characters a file name carries; one of them is a
    /// functionary of the step and files a counted link, the other does nothing
    #[serde(default)]
    pub colliding_table_key: bool,
}

/// Step `i` delegated by two authorised functionaries; the copy filed by `bad` cannot verify.
fn build_surplus_sub(spec: &Spec, kind: u8) -> Option<World> {
    let mut w = spec.world.clone();
    let n = w.layout.steps.len();
    let i = spec.step as usize % n;
    let name = w.layout.steps[i].name.clone();
    let mut auth = w.layout.steps[i].pubkeys.clone();
    for k in &w.layout.keys {
        if auth.len() >= 2 {
            break;
        }
        if !auth.iter().any(|p| key_id_str(p) == key_id_str(k)) {
            auth.push(k.clone());
        }
    }
    if auth.len() < 2 || prefix8(&auth[0]) == prefix8(&auth[1]) {
        return None;
    }
    w.layout.steps[i].pubkeys = auth.clone();
    w.layout.steps[i].threshold = 1;
    w.links.retain(|f| f.step != name);
    let worker = stranger(7);
    let products: Artifacts = [("out".to_string(), [("sha256".to_string(), DIGEST_POOL_256[0].to_string())].into())].into();
    let bad = (spec.variants.len() + spec.creation_order.len()) % 2;
    for (ci, k) in auth.iter().take(2).enumerate() {
        let link = LinkSpec {
            name: "inner".into(),
            materials: Default::default(),
            products: products.clone(),
            env: None,
            byproducts: ByprodSpec { return_value: Some(0), stdout: Some(String::new()), stderr: Some(String::new()), other: Default::default() },
            command: vec![],
        };
        let mut inner = World {
            layout: LayoutSpec {
                expires: 4_000_000_000,
                readme: String::new(),
                keys: vec![worker.clone()],
                steps: vec![StepSpec { name: "inner".into(), threshold: 1, pubkeys: vec![worker.clone()], expected_command: vec![], expected_materials: vec![], expected_products: vec![RuleSpec::Allow("*".into())] }],
                inspect: vec![],
            },
            sigs: vec![SigEntry::good(k)],
            tamper: None,
            links: vec![LinkFile { step: "inner".into(), filed_under: worker.clone(), name_field: None, symlink_store: false, body: Body::Link { link, sigs: vec![SigEntry::good(&worker)], tamper: None } }],
        };
        if ci == bad && kind % 8 < 4 {
            match kind % 4 {
                0 => inner.links.clear(),
                1 => inner.layout.expires = 1_000_000_000,
                2 => inner.layout.steps[0].expected_products = vec![RuleSpec::Disallow("*".into())],
                _ => {
                    let other = stranger(9);
                    inner.links[0].filed_under = other.clone();
                    if let Body::Link { sigs, .. } = &mut inner.links[0].body {
                        *sigs = vec![SigEntry::good(&other)];
                    }
                }
            }
        }
        w.links.push(LinkFile { step: name.clone(), filed_under: k.clone(), name_field: None, symlink_store: false, body: Body::Sub { world: Box::new(inner), placement: Placement::Proper } });
    }
    Some(w)
}

/// Name of the link sub-directory of the sub-layout copy that is made unusable (kinds 4..8: on disk, after writing).
fn surplus_bad_dir(spec: &Spec, w: &World) -> Option<String> {
    let kind = spec.surplus_sub?;
    if kind % 8 < 4 {
        return None;
    }
    let i = spec.step as usize % w.layout.steps.len();
    let name = w.layout.steps[i].name.clone();
    let subs: Vec<&LinkFile> = w.links.iter().filter(|f| f.step == name && matches!(f.body, Body::Sub { .. })).collect();
    let bad = (spec.variants.len() + spec.creation_order.len()) % 2;
    subs.get(bad).map(|f| format!("{}.{}", f.step, prefix8(&f.filed_under)))
}

fn copy_tree(from: &std::path::Path, to: &std::path::Path) {
    std::fs::create_dir_all(to).unwrap();
    let mut entries: Vec<_> = std::fs::read_dir(from).unwrap().flatten().map(|e| e.path()).collect();
    entries.sort();
    for p in entries {
        let dst = to.join(p.file_name().unwrap());
        if p.is_dir() {
            copy_tree(&p, &dst);
        } else {
            std::fs::copy(&p, &dst).unwrap();
        }
    }
}

pub fn verify_dir_once(dir: &std::path::Path) -> serde_json::Value {
    let layout_text = std::fs::read_to_string(dir.join("__layout.json")).unwrap_or_default();
    let keys: Vec<KeySpec> = serde_json::from_str(&std::fs::read_to_string(dir.join("__keys.json")).unwrap_or_default()).unwrap_or_default();
    let info = MatInfo { layout_text, ..Default::default() };
    let links = dir.join("links");
    match run_verify(&info, &own_ids(&keys), &links, None) {
        None => serde_json::json!({"ok": false, "err": "layout does not parse"}),
        Some(Ok(b)) => serde_json::json!({"ok": true, "summary": serde_json::to_value(&b.metadata).unwrap_or(serde_json::Value::Null)}),
        Some(Err(e)) => serde_json::json!({"ok": false, "err": e}),
    }
}

/// Build the world under test: step `i` gets threshold <= 1 and additional, differing, valid links.
fn cosign_many(w: &mut World) {
    for i in 0..70 {
        w.sigs.push(SigEntry::good(&stranger_wide(i)));
    }
    for f in w.links.iter_mut() {
        if let Body::Link { sigs, .. } = &mut f.body {
            for i in 0..70 {
                sigs.push(SigEntry::good(&stranger_wide(i + 35)));
            }
        }
    }
}

fn cosign(w: &mut World) {
    w.sigs.push(SigEntry::good(&stranger(11)));
    w.sigs.push(SigEntry::good(&stranger(12)));
    w.sigs.insert(0, SigEntry::good(&stranger(13)));
    for f in w.links.iter_mut() {
        if let Body::Link { sigs, .. } = &mut f.body {
            sigs.push(SigEntry::good(&stranger(14)));
            sigs.insert(0, SigEntry::good(&stranger(15)));
            sigs.push(SigEntry::good(&stranger(16)));
        }
    }
}

fn build(spec: &Spec) -> Option<World> {
    let mut w = build_inner(spec)?;
    if spec.colliding_table_key {
        let n = w.layout.steps.len();
        let i = spec.step as usize % n;
        let name = w.layout.steps[i].name.clone();
        let (mut p, mut q) = collider_pair(spec.step / 3);
        if spec.step & 0x40 != 0 {
            std::mem::swap(&mut p, &mut q);
        }
        let taken = w.links.iter().any(|f| f.step == name && f.name_field.clone().unwrap_or_else(|| prefix8(&f.filed_under)) == prefix8(&p));
        if let (false, Some(f)) = (taken, w.links.iter_mut().find(|f| f.step == name && matches!(f.body, Body::Link { .. }))) {
            f.filed_under = p.clone();
            f.name_field = None;
            if let Body::Link { sigs, .. } = &mut f.body {
                *sigs = vec![SigEntry::good(&p)];
            }
            w.layout.steps[i].pubkeys.push(p.clone());
            for k in [&p, &q] {
                if !w.layout.keys.iter().any(|t| key_id_str(t) == key_id_str(k)) {
                    w.layout.keys.push(k.clone());
                }
            }
        }
    }
    if spec.cosigned {
        if spec.many_cosigners {
            cosign_many(&mut w);
        } else {
            cosign(&mut w);
        }
    }
    Some(w)
}

fn build_inner(spec: &Spec) -> Option<World> {
    if let Some(kind) = spec.surplus_sub {
        return build_surplus_sub(spec, kind);
    }
    let mut w = spec.world.clone();
    let n = w.layout.steps.len();
    let i = spec.step as usize % n;
    let s = w.layout.steps[i].clone();
    if w.links.iter().any(|f| f.step == s.name && !matches!(f.body, Body::Link { .. })) {
        return None;
    }
    let template = w.links.iter().find(|f| f.step == s.name)?.clone();
    let have: Vec<String> = w.links.iter().filter(|f| f.step == s.name).map(|f| key_id_str(&f.filed_under)).collect();
    let spare: Vec<KeySpec> = s.pubkeys.iter().filter(|k| !have.contains(&key_id_str(k))).cloned().collect();
    // make sure there are keys for the variants: authorise more functionaries if needed
    let mut spare = spare;
    for k in &w.layout.keys {
        if spare.len() >= spec.variants.len() {
            break;
        }
        if !s.pubkeys.iter().any(|p| key_id_str(p) == key_id_str(k)) && !spare.iter().any(|p| key_id_str(p) == key_id_str(k)) {
            w.layout.steps[i].pubkeys.push(k.clone());
            spare.push(k.clone());
        }
    }
    if spec.twin {
        if let Some(t) = twin_of(&template.filed_under) {
            if !w.layout.keys.iter().any(|k| key_id_str(k) == key_id_str(&t)) {
                w.layout.keys.push(t.clone());
                w.layout.steps[i].pubkeys.push(t.clone());
                spare.insert(0, t);
            }
        }
    }
    if spare.is_empty() {
        return None;
    }
    if spec.multi_party {
        w.layout.steps[i].threshold = 2;
    } else if w.layout.steps[i].threshold > 1 {
        w.layout.steps[i].threshold = 1;
    }
    // keep only one original link for the step, so that every counted link is either the base or a variant
    let mut seen = false;
    w.links.retain(|f| {
        if f.step != s.name {
            return true;
        }
        if !seen {
            seen = true;
            true
        } else {
            false
        }
    });
    for (vi, (v, k)) in spec.variants.iter().zip(spare.iter()).enumerate() {
        let mut f = template.clone();
        f.filed_under = k.clone();
        if let Body::Link { link, sigs, .. } = &mut f.body {
            *sigs = vec![SigEntry::good(k)];
            let d: Digests = [("sha256".to_string(), DIGEST_POOL_256[(vi + 1) % 3].to_string())].into();
            match v {
                Variation::ExtraProduct => {
                    link.products.insert(format!("variant-{}", vi), d);
                }
                Variation::ExtraMaterial => {
                    link.materials.insert(format!("variant-{}", vi), d);
                }
                Variation::OtherDigest => {
                    if let Some((_, dig)) = link.products.iter_mut().next() {
                        *dig = [("sha512".to_string(), DIGEST_POOL_512[vi % 2].to_string())].into();
                    } else {
                        link.products.insert("p".into(), d);
                    }
                }
                Variation::OtherByproducts => {
                    link.byproducts.stdout = Some(format!("variant {}", vi));
                    link.byproducts.return_value = Some(vi as i32 + 1);
                    link.command.push(format!("--variant={}", vi));
                }
            }
        }
        w.links.push(f);
    }
    if spec.two_digest_match {
        let name = w.layout.steps[i].name.clone();
        let m: Digests = [("sha256".to_string(), DIGEST_POOL_256[0].to_string()), ("sha512".to_string(), DIGEST_POOL_512[0].to_string())].into();
        let p: Digests = [("sha256".to_string(), DIGEST_POOL_256[0].to_string()), ("sha512".to_string(), DIGEST_POOL_512[1].to_string())].into();
        for f in w.links.iter_mut().filter(|f| f.step == name) {
            if let Body::Link { link, .. } = &mut f.body {
                link.materials.insert("md".into(), m.clone());
                link.products.insert("md".into(), p.clone());
            }
        }
        w.layout.steps[i].expected_products.insert(0, RuleSpec::Disallow("md".into()));
        w.layout.steps[i].expected_products.insert(0, RuleSpec::Match { pattern: "md".into(), in_src: None, products: false, in_dst: None, from: name });
    }
    if spec.rule_trap {
        w.layout.steps[i].expected_products.insert(0, RuleSpec::Disallow("variant-*".into()));
        w.layout.steps[i].expected_materials.insert(0, RuleSpec::Disallow("variant-*".into()));
    }
    Some(w)
}

fn reps(tier: Tier) -> (usize, usize) {
    tier.pick((16, 2), (64, 8))
}

impl Property for C13 {
    type Spec = Spec;
    fn id() -> &'static str {
        "C13"
    }
    fn rule() -> String {
        "Generated: valid worlds in which one step gets threshold <= 1 and 2-4 validly signed, authorised links that differ (extra product, \
         extra material, other digest, or only command/byproducts), optionally with a rule (DISALLOW variant-*) that only some of them \
         violate, or with an artifact recorded under two digest algorithms that agree on one and differ on the other, tied by MATCH + DISALLOW; or the step is delegated by two authorised functionaries at threshold 1 and one of the two sub-layouts cannot verify (inner link missing / by a stranger, expired, inner rule failure, or its link directory removed, replaced by a regular file, by a dangling or by a self-referential symbolic link); in a quarter of the worlds the first differing link is signed by the base link's own key material under its other key id (Ed25519 raw/PKCS#8, RSA other PSS scheme); a quarter of the worlds additionally carry three valid signatures by untrusted keys on the layout and on every link (more signatures than authorised keys); the files of the link directory are created in a generated order. Before the repetitions the process verifies the directory once while each link file is a same-size, same-mtime near copy of its final content (history on disk). Oracle (invariant over repetitions): R in-process \
         repetitions (every HashMap gets fresh hash keys) and P fresh processes give the same verdict and, on success, the same summary \
         link as a JSON value. R=16,P=2 quick (miss probability for a fair flip 2^-17); R=64,P=8 thorough. Non-trivial: at least two counted \
         links of one step differ; distinct by (layout shape, variants, rule trap, step position)."
            .into()
    }
    fn assumptions() -> Vec<String> {
        vec!["hash seeds are sampled by repetition, not enumerated".into(), "layout expiry far in the future".into()]
    }
    fn cases(tier: Tier) -> u64 {
        tier.pick(2_500, 40_000)
    }
    fn strategy(_tier: Tier) -> BoxedStrategy<Spec> {
        let cfg = Cfg { min_steps: 1, max_steps: 3, max_owners: 1, big: true, ..Cfg::basic() };
        (
            valid_world(cfg),
            any::<u8>(),
            proptest::collection::vec(prop_oneof![Just(Variation::ExtraProduct), Just(Variation::OtherDigest), Just(Variation::OtherByproducts), Just(Variation::ExtraMaterial)], 1..4),
            any::<bool>(),
            proptest::collection::vec(any::<u8>(), 0..6),
            prop_oneof![3 => Just(false), 1 => Just(true)],
            prop_oneof![3 => Just(false), 1 => Just(true)],
            prop_oneof![5 => Just(None), 2 => (0u8..8).prop_map(Some)],
            prop_oneof![3 => Just(false), 1 => Just(true)],
            prop_oneof![3 => Just(false), 1 => Just(true)],
            (prop_oneof![4 => Just(false), 1 => Just(true)], prop_oneof![4 => Just(false), 1 => Just(true)]),
        )
            .prop_map(|((world, owners), step, variants, rule_trap, creation_order, two_digest_match, multi_party, surplus_sub, cosigned, twin, (many_cosigners, colliding_table_key))| Spec { world, owners, step, variants, rule_trap, creation_order, two_digest_match, multi_party, surplus_sub, cosigned, twin, many_cosigners, colliding_table_key })
            .prop_filter("buildable", |s| build(s).is_some())
            .boxed()
    }
    fn check(spec: &Spec, env: &mut Env) -> Outcome {
        let mut o = Outcome::new();
        let Some(w) = build(spec) else { return o };
        let (r_reps, p_reps) = reps(env.tier);
        let now = now_secs();
        let dir = env.fresh_dir("c13");
        let links = dir.join("links");
        // materialise into a staging dir, then re-create the files in the generated order
        let stage = dir.join("stage");
        let info = write_world(&w, &stage);
        std::fs::create_dir_all(&links).unwrap();
        let mut names: Vec<std::path::PathBuf> = std::fs::read_dir(&stage).unwrap().flatten().map(|e| e.path()).filter(|p| p.is_file()).collect();
        names.sort();
        let mut c = crate::gen::json::Choices::new(&spec.creation_order);
        while !names.is_empty() {
            let k = c.next(names.len());
            let p = names.remove(k);
            std::fs::copy(&p, links.join(p.file_name().unwrap())).unwrap();
        }
        // sub-directories (link directories of sub-layouts)
        for p in std::fs::read_dir(&stage).unwrap().flatten().map(|e| e.path()).filter(|p| p.is_dir()) {
            copy_tree(&p, &links.join(p.file_name().unwrap()));
        }
        if let (Some(bad), Some(kind)) = (surplus_bad_dir(spec, &w), spec.surplus_sub) {
            // the sub-layout's link directory is not a directory (any more)
            let p = links.join(&bad);
            let _ = std::fs::remove_dir_all(&p);
            match kind % 8 {
                5 => {
                    let _ = std::fs::write(&p, "not a directory");
                }
                6 => {
                    let _ = std::os::unix::fs::symlink("nowhere", &p);
                }
                7 => {
                    let _ = std::os::unix::fs::symlink(&bad, &p);
                }
                _ => {}
            }
            o.class("sub-layout-link-directory-unusable");
        }
        std::fs::write(dir.join("__layout.json"), &info.layout_text).unwrap();
        std::fs::write(dir.join("__keys.json"), serde_json::to_string(&spec.owners).unwrap()).unwrap();
        let j = judge(&w, &info, &spec.owners, now, true);
        o.class(if j.ambiguous { "differing-counted-links" } else { "no-ambiguity" });
        for v in &spec.variants {
            o.class(format!("variation:{:?}", v));
        }
        if spec.rule_trap {
            o.class("rule-trap");
        }
        if spec.two_digest_match {
            o.class("two-digest-match");
        }
        if spec.multi_party {
            o.class("multi-party-with-differing-links");
        }
        if spec.colliding_table_key {
            o.class("key-table-with-colliding-short-ids");
        }
        if spec.cosigned {
            o.class("cosigned-by-untrusted-keys");
        }
        if spec.twin {
            o.class("differing-link-under-second-id-of-one-key");
        }
        if let Some(k) = spec.surplus_sub {
            o.class(format!("surplus-failing-sub-layout:{}", k % 8));
        }
        // history on disk: this process has verified the directory once while every link file was a
        // near copy of its final content (one hex digit of the signature differs; same path, size
        // and modification time); the fresh processes below have not
        let saved = near_copies_in_place(&links);
        pin_mtimes(&links);
        let _ = verify_dir_once(&dir);
        restore_files(&saved);
        pin_mtimes(&links);
        if !saved.is_empty() {
            o.class("verified-once-before-with-near-copies");
        }
        let mut outcomes: Vec<serde_json::Value> = vec![];
        for _ in 0..r_reps {
            outcomes.push(verify_dir_once(&dir));
        }
        let exe = std::env::current_exe().expect("exe");
        for _ in 0..p_reps {
            let out = std::process::Command::new(&exe).arg("verify-dir").arg(&dir).stderr(std::process::Stdio::null()).output().expect("spawn verify-dir");
            let line = String::from_utf8_lossy(&out.stdout);
            let v: serde_json::Value = line.lines().filter_map(|l| l.strip_prefix("VERIFY-DIR ")).next().and_then(|l| serde_json::from_str(l).ok()).unwrap_or(serde_json::json!({"ok": false, "err": "subprocess produced no result"}));
            if v["err"] == "subprocess produced no result" {
                panic!("harness: verify-dir subprocess failed: status {:?}", out.status);
            }
            outcomes.push(v);
        }
        o.evals = outcomes.len() as u64;
        let oks = outcomes.iter().filter(|v| v["ok"] == true).count();
        o.class(if oks == outcomes.len() { "verdict:always-ok" } else if oks == 0 { "verdict:always-err" } else { "verdict:flips" });
        if oks != 0 && oks != outcomes.len() {
            o.fail(format!("C13/verdict-flips/{}", if spec.surplus_sub.is_some() { "surplus-failing-sub-layout" } else if spec.cosigned { "cosigned" } else if spec.two_digest_match { "two-digest-match" } else if spec.rule_trap { "rule-on-differing-links" } else { "other" }),
                format!("{} of {} repetitions returned Ok, the others Err; first Err: {:?}", oks, outcomes.len(), outcomes.iter().find(|v| v["ok"] != true).map(|v| v["err"].clone())),
                "the same verdict every time");
        } else if oks == outcomes.len() {
            let first = &outcomes[0]["summary"];
            if let Some(other) = outcomes.iter().find(|v| &v["summary"] != first) {
                let what = if other["summary"]["products"] != first["products"] || other["summary"]["materials"] != first["materials"] { "artifacts" } else { "command-or-byproducts" };
                o.fail(format!("C13/summary-differs/{}", what), format!("summaries differ between repetitions: {} vs {}", first, other["summary"]), "the same summary every time");
            }
        }
        if j.ambiguous || spec.two_digest_match || spec.multi_party || spec.surplus_sub.is_some() || spec.cosigned || spec.colliding_table_key {
            o.nontrivial(format!("{}|{:?}|{}|{}|{}|{}|{:?}", w.layout.steps.len(), spec.variants, spec.rule_trap, spec.step as usize % w.layout.steps.len(), spec.two_digest_match, spec.multi_party, (spec.surplus_sub, spec.cosigned)));
        }
        let _ = std::fs::remove_dir_all(&dir);
        o
    }
    fn nontrivial_floor() -> f64 {
        0.5
    }
    fn max_shrink_iters() -> u32 {
        150
    }
}
