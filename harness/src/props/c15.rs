//! C15 Delegated sub-layouts are verified as strictly as the top-level layout.

use crate::fw::*;
use crate::gen::edit::*;
use crate::gen::keys::*;
use crate::gen::meta::*;
use crate::gen::world::*;
use crate::props::c01::now_secs;
use crate::world::*;
use proptest::prelude::*;
use serde::{Deserialize, Serialize};

pub struct C15;

#[derive(Clone, Debug, Serialize, Deserialize, PartialEq, Eq)]
pub enum InnerFault {
    None,
    WrongSigner(u8),
    Unsigned,
    ExtraSigner(u8),
    Expired,
    MisplacedInParent,
    MisplacedOtherKeyDir(u8),
    /// inner links in `<step name up to its last dot>.<keyid8>/` (only differs from the proper place for dotted step names)
    MisplacedStrippedExtension,
    InnerLinkRemoved(u8),
    InnerLinkTampered(u8, TreeEdit),
    InnerLinkByUnauthorized(u8),
    InnerLinkBadSignature(u8),
    InnerRuleFails,
    InnerLayoutTampered(TreeEdit),
    /// the sub-layout is co-signed: another functionary's signature comes first, K's second; the inner links lie in
    /// the directory named after the co-signer instead of K
    CosignerFirstLinksInCosignerDir(u8),
}

#[derive(Clone, Debug, Serialize, Deserialize)]
pub struct Spec {
    pub world: World,
    pub owners: Vec<KeySpec>,
    pub fault: InnerFault,
    /// which delegated step (by order of appearance) receives the fault
    pub which: u8,
    pub step_name: Option<String>,
    /// link the step after the delegated one to the delegated step's summary by MATCH rules
    pub match_link: bool,
    /// apply the fault one level deeper when a nested delegation exists
    pub deeper: bool,
    /// step names of the parent layout contain dots (`s0.rel-1.2`)
    #[serde(default)]
    pub dotted: bool,
    /// verification instant injected through the clock hook (unix seconds); None: the wall clock
    #[serde(default)]
    pub clock: Option<i64>,
    /// how the link directory is spelled for the verifier: 0 its plain path, 1 with a trailing `/.`, 2 through a symbolic
    /// link alias, 3 as `<symlink>/../links` where the symlink leads into a sibling of the real directory - and the
    /// place this spelling names when read without following the symlink holds the complete fault-free tree as a decoy
    #[serde(default)]
    pub spelling: u8,
    /// the whole tree is delegated this many further times: wrapped into that many one-step layouts, each delegating
    /// its step to one functionary who files the next layout as a sub-layout (delegation depth up to 22)
    #[serde(default)]
    pub extra_depth: u8,
}

/// `inner` becomes the evidence of a one-step layout, `n` times over; the outermost layout keeps `inner`'s owner signatures.
fn wrap_in_delegations(inner: World, n: usize) -> World {
    let f = stranger(50);
    let owner_sigs = inner.sigs.clone();
    let mut cur = inner;
    for lvl in 0..n {
        cur.sigs = vec![SigEntry::good(&f)];
        let name = format!("w{}", lvl);
        cur = World {
            layout: LayoutSpec {
                expires: 4_000_000_000,
                readme: String::new(),
                keys: vec![f.clone()],
                steps: vec![StepSpec { name: name.clone(), threshold: 1, pubkeys: vec![f.clone()], expected_command: vec![], expected_materials: vec![], expected_products: vec![] }],
                inspect: vec![],
            },
            sigs: vec![],
            tamper: None,
            links: vec![LinkFile { step: name, filed_under: f.clone(), name_field: None, symlink_store: false, body: Body::Sub { world: Box::new(cur), placement: Placement::Proper } }],
        };
    }
    cur.sigs = owner_sigs;
    cur
}

fn rename_top(w: &mut World, suffix: &str) {
    let mut map = std::collections::BTreeMap::new();
    for s in w.layout.steps.iter_mut() {
        let n = format!("{}{}", s.name, suffix);
        map.insert(s.name.clone(), n.clone());
        s.name = n;
    }
    for f in w.links.iter_mut() {
        if let Some(n) = map.get(&f.step) {
            f.step = n.clone();
        }
        if let Body::Link { link, .. } = &mut f.body {
            if let Some(n) = map.get(&link.name) {
                link.name = n.clone();
            }
        }
    }
}

fn rename_inner(w: &mut World, tag: &str) {
    let mut map = std::collections::BTreeMap::new();
    for (i, s) in w.layout.steps.iter_mut().enumerate() {
        let n = format!("{}{}", tag, i);
        map.insert(s.name.clone(), n.clone());
        s.name = n;
    }
    for f in w.links.iter_mut() {
        if let Some(n) = map.get(&f.step) {
            f.step = n.clone();
        }
        match &mut f.body {
            Body::Link { link, .. } => {
                if let Some(n) = map.get(&link.name) {
                    link.name = n.clone();
                }
            }
            Body::Sub { world, .. } => rename_inner(world, &format!("{}x", tag)),
            _ => {}
        }
    }
}

fn sub_indices(w: &World) -> Vec<usize> {
    w.links.iter().enumerate().filter(|(_, f)| matches!(f.body, Body::Sub { .. })).map(|(i, _)| i).collect()
}

fn apply_inner_fault(parent: &mut World, li: usize, fault: &InnerFault, deeper: bool, now: i64) -> bool {
    let filed = parent.links[li].filed_under.clone();
    let step_name = parent.links[li].step.clone();
    let parent_funcs = parent.layout.keys.clone();
    let Body::Sub { world, placement } = &mut parent.links[li].body else { return false };
    if deeper {
        let inner_subs = sub_indices(world);
        if let Some(i2) = inner_subs.first() {
            return apply_inner_fault(world, *i2, fault, false, now);
        }
    }
    let others: Vec<KeySpec> = parent_funcs.iter().filter(|k| material(k) != material(&filed)).cloned().collect();
    let pick = |n: u8| others.get(n as usize % others.len().max(1)).cloned().unwrap_or_else(|| stranger(n));
    match fault {
        InnerFault::None => {}
        InnerFault::WrongSigner(n) => world.sigs = vec![SigEntry::good(&pick(*n))],
        InnerFault::Unsigned => world.sigs.clear(),
        InnerFault::ExtraSigner(n) => world.sigs.push(SigEntry::good(&pick(*n))),
        InnerFault::CosignerFirstLinksInCosignerDir(n) => {
            let c = pick(*n);
            world.sigs.insert(0, SigEntry::good(&c));
            *placement = Placement::OtherKeyDir(c);
        }
        InnerFault::Expired => world.layout.expires = now - 1 - (li as i64) * 86_400,
        InnerFault::MisplacedInParent => *placement = Placement::ParentDir,
        InnerFault::MisplacedOtherKeyDir(n) => *placement = Placement::OtherKeyDir(pick(*n)),
        InnerFault::MisplacedStrippedExtension => {
            let Some((stem, _)) = step_name.rsplit_once('.') else { return false };
            *placement = Placement::Named(format!("{}.{}", stem, prefix8(&filed)));
        }
        InnerFault::InnerLinkRemoved(i) => {
            if world.links.is_empty() {
                return false;
            }
            let i = *i as usize % world.links.len();
            world.links.remove(i);
        }
        InnerFault::InnerLinkTampered(i, e) => {
            if world.links.is_empty() {
                return false;
            }
            let i = *i as usize % world.links.len();
            match &mut world.links[i].body {
                Body::Link { tamper, .. } => *tamper = Some(e.clone()),
                _ => return false,
            }
        }
        InnerFault::InnerLinkByUnauthorized(i) => {
            if world.links.is_empty() {
                return false;
            }
            let i = *i as usize % world.links.len();
            let s = stranger(i as u8);
            world.links[i].filed_under = s.clone();
            match &mut world.links[i].body {
                Body::Link { sigs, .. } => *sigs = vec![SigEntry::good(&s)],
                _ => return false,
            }
        }
        InnerFault::InnerLinkBadSignature(i) => {
            if world.links.is_empty() {
                return false;
            }
            let i = *i as usize % world.links.len();
            match &mut world.links[i].body {
                Body::Link { sigs, .. } => {
                    if let Some(s) = sigs.first_mut() {
                        s.corrupt = Some(Corrupt::BitFlip(i as u16 * 37));
                    }
                }
                _ => return false,
            }
        }
        InnerFault::InnerRuleFails => {
            let Some(last) = world.layout.steps.last_mut() else { return false };
            last.expected_products.insert(0, RuleSpec::Disallow("*".into()));
            last.expected_materials.insert(0, RuleSpec::Disallow("*".into()));
        }
        InnerFault::InnerLayoutTampered(e) => world.tamper = Some(e.clone()),
    }
    true
}

fn fault_strategy() -> BoxedStrategy<InnerFault> {
    prop_oneof![
        3 => Just(InnerFault::None),
        2 => any::<u8>().prop_map(InnerFault::WrongSigner),
        1 => Just(InnerFault::Unsigned),
        1 => any::<u8>().prop_map(InnerFault::ExtraSigner),
        2 => Just(InnerFault::Expired),
        2 => Just(InnerFault::MisplacedInParent),
        1 => any::<u8>().prop_map(InnerFault::MisplacedOtherKeyDir),
        2 => Just(InnerFault::MisplacedStrippedExtension),
        1 => any::<u8>().prop_map(InnerFault::InnerLinkRemoved),
        1 => (any::<u8>(), tree_edit()).prop_map(|(i, e)| InnerFault::InnerLinkTampered(i, e)),
        2 => any::<u8>().prop_map(InnerFault::InnerLinkByUnauthorized),
        1 => any::<u8>().prop_map(InnerFault::InnerLinkBadSignature),
        2 => Just(InnerFault::InnerRuleFails),
        1 => tree_edit().prop_map(InnerFault::InnerLayoutTampered),
        2 => any::<u8>().prop_map(InnerFault::CosignerFirstLinksInCosignerDir),
    ]
    .boxed()
}

impl Property for C15 {
    type Spec = Spec;
    fn id() -> &'static str {
        "C15"
    }
    fn rule() -> String {
        "Generated: two-level (thorough also three-level) delegation trees: a parent step authorises K (or two functionaries with threshold 2, each filing a copy) and its evidence file is a layout \
         signed by K; inner layouts have 0-2 steps with their own functionaries and links in <step>.<keyid8>/; one fault is injected into one \
         delegated step: inner layout signed by another functionary / by nobody / by K plus others; inner expiry one second (or whole days) before the verification instant, which is the wall clock or an instant between 2008 and 2093 injected through the clock hook and different from case to case; inner links \
         placed in the parent directory, under another key's directory or (step names with dots) under the name with its last extension stripped; an inner link removed, tampered, replaced by an unauthorised \
         signer's, or with a broken signature; an inner rule that fails; the inner layout edited after signing; the inner layout co-signed by another functionary (whose signature comes first) with the inner links in the co-signer's directory; optionally the parent's next \
         step is tied to the delegated step's summary with MATCH ... FROM rules, and a step name is requested. The link directory is passed as its plain path, with a trailing /., through a symlink alias, or as <symlink>/../links with a complete fault-free decoy tree at the place that spelling names when the symlink is not followed. History on disk: the fault-free tree is written and verified once in the same directory first, then the faulted tree replaces it at the same paths with one fixed modification time. Oracle: parent Ok only if the \
         ground-truth model finds no violated condition (the delegated step counts only when the inner world, judged with key set {K} and \
         directory <step>.<K8>, has none); on Ok the returned summary equals {requested name, materials of the first step, products, \
         command and byproducts of the last step} computed by the model (inner summaries feed parent evidence); fully valid MATCH-tied \
         worlds, and fully valid trees wrapped into 7-20 further delegation levels, must verify. Non-trivial: a fault makes the model report a violated condition and the fault-free control verifies Ok, or \
         the world is valid with a delegated step and >= 2 steps; distinct by (fault, depth, inner step count, layout shape)."
            .into()
    }
    fn assumptions() -> Vec<String> {
        vec!["ground truth by construction plus the reference rule engine; summary oracle applies to layouts with >= 1 step".into()]
    }
    fn cases(tier: Tier) -> u64 {
        tier.pick(8_000, 120_000)
    }
    fn strategy(tier: Tier) -> BoxedStrategy<Spec> {
        let depth = tier.pick(1usize, 2usize);
        let cfg = Cfg { min_steps: 1, max_steps: 3, max_owners: 1, sub_depth: depth, multi_sub: true, max_threshold: 2, big: true, ..Cfg::basic() };
        (valid_world(cfg), fault_strategy(), any::<u8>(), proptest::option::of("[a-z]{1,6}"), any::<bool>(), prop_oneof![3 => Just(false), 1 => Just(true)], any::<bool>(),
            prop_oneof![1 => Just(None), 2 => (1_200_000_000i64..3_900_000_000).prop_map(Some)], prop_oneof![3 => Just(0u8), 1 => Just(1u8), 1 => Just(2u8), 2 => Just(3u8)], prop_oneof![30 => Just(0u8), 1 => Just(7u8), 1 => Just(8u8), 1 => Just(9u8), 1 => Just(12u8), 1 => Just(20u8)])
            .prop_filter_map("has a delegated step", |((mut world, owners), fault, which, step_name, match_link, deeper, dotted, clock, spelling, extra_depth)| {
                let dotted = dotted || fault == InnerFault::MisplacedStrippedExtension;
                if dotted {
                    rename_top(&mut world, ".rel-1.2");
                }
                for f in world.links.iter_mut() {
                    if let Body::Sub { world: inner, .. } = &mut f.body {
                        rename_inner(inner, "in");
                    }
                }
                if sub_indices(&world).is_empty() {
                    return None;
                }
                Some(Spec { world, owners, fault, which, step_name, match_link, deeper, dotted, clock, spelling, extra_depth })
            })
            .boxed()
    }
    fn check(spec: &Spec, env: &mut Env) -> Outcome {
        let mut o = Outcome::new();
        let now = spec.clock.unwrap_or_else(now_secs);
        let set_clock = |on: bool| {
            in_toto::verif_hooks::set_clock(if on { spec.clock.map(|c| chrono::DateTime::from_timestamp(c, 0).expect("instant")) } else { None });
        };
        o.class(if spec.clock.is_some() { "clock:injected" } else { "clock:wall" });
        let mut base = spec.world.clone();
        // optionally tie the step after each delegated step to the delegated step's summary
        if spec.match_link {
            let dir0 = env.fresh_dir("c15m");
            let info0 = write_world(&base, &dir0);
            let j0 = judge(&base, &info0, &spec.owners, now, true);
            let _ = std::fs::remove_dir_all(&dir0);
            let names: Vec<String> = base.layout.steps.iter().map(|s| s.name.clone()).collect();
            for (i, name) in names.iter().enumerate() {
                let delegated = base.links.iter().any(|f| &f.step == name && matches!(f.body, Body::Sub { .. }));
                if !delegated || i + 1 >= names.len() {
                    continue;
                }
                let Some(ev) = j0.evidence.get(name) else { continue };
                let next = names[i + 1].clone();
                if base.links.iter().any(|f| f.step == next && matches!(f.body, Body::Sub { .. })) {
                    continue;
                }
                // next step consumes exactly the delegated step's products
                for f in base.links.iter_mut().filter(|f| f.step == next) {
                    if let Body::Link { link, .. } = &mut f.body {
                        link.materials = ev.products.clone();
                    }
                }
                base.layout.steps[i + 1].expected_materials = vec![
                    RuleSpec::Match { pattern: "*".into(), in_src: None, products: true, in_dst: None, from: name.clone() },
                    RuleSpec::Disallow("*".into()),
                ];
                o.class("match-tied");
            }
        }
        let mut w = base.clone();
        let subs = sub_indices(&w);
        let li = subs[spec.which as usize % subs.len()];
        let applied = apply_inner_fault(&mut w, li, &spec.fault, spec.deeper, now);
        let fault_name = format!("{:?}", spec.fault).split(|c| c == '(' || c == ' ').next().unwrap_or("").to_string();
        o.class(format!("fault:{}", if applied { fault_name.as_str() } else { "not-applicable" }));
        let (base, w) = if spec.extra_depth > 0 {
            o.class(format!("delegation-depth:+{}", spec.extra_depth));
            (wrap_in_delegations(base, spec.extra_depth as usize), wrap_in_delegations(w, spec.extra_depth as usize))
        } else {
            (base, w)
        };
        let root = env.fresh_dir("c15");
        let dir = root.join("real").join("links");
        // history on disk: the fault-free tree was verified once in this very directory before
        let info = write_world_after(&base, &spec.owners, &w, &dir);
        let dir_arg = match spec.spelling % 4 {
            0 => dir.clone(),
            1 => dir.join("."),
            2 => {
                let alias = root.join("alias");
                let _ = std::os::unix::fs::symlink(&dir, &alias);
                alias
            }
            _ => {
                let _ = std::fs::create_dir_all(root.join("real").join("run"));
                let _ = std::os::unix::fs::symlink("real/run", root.join("view"));
                let _ = write_world(&base, &root.join("links"));
                root.join("view").join("..").join("links")
            }
        };
        o.class(format!("link-dir-spelling:{}", spec.spelling % 4));
        let j = judge(&w, &info, &spec.owners, now, true);
        if spec.fault == InnerFault::Expired && spec.clock.is_some() {
            // history: an earlier verification of the same layout, at an instant at which the sub-layout
            // had not expired yet, fails for lack of link files
            let early = now - 2 - (li as i64 + 1) * 86_400;
            in_toto::verif_hooks::set_clock(chrono::DateTime::from_timestamp(early, 0));
            let edir = env.fresh_dir("c15e");
            let _ = std::fs::create_dir_all(&edir);
            let _ = run_verify(&info, &own_ids(&spec.owners), &edir, None);
            let _ = std::fs::remove_dir_all(&edir);
            o.class("expired-after-an-earlier-failed-call");
        }
        set_clock(true);
        let r = run_verify(&info, &own_ids(&spec.owners), &dir_arg, spec.step_name.as_deref());
        set_clock(false);
        let _ = std::fs::remove_dir_all(&root);
        let Some(r) = r else { return o };
        o.class(if r.is_ok() { "verdict:ok" } else { "verdict:err" });
        let inner_steps = match w.links.get(li).map(|f| &f.body) {
            Some(Body::Sub { world, .. }) => world.layout.steps.len(),
            _ => 0,
        };
        let depth = {
            fn d(w: &World) -> usize {
                1 + w.links.iter().filter_map(|f| if let Body::Sub { world, .. } = &f.body { Some(d(world)) } else { None }).max().unwrap_or(0)
            }
            d(&w)
        };
        o.class(format!("depth:{}", depth));
        if spec.dotted {
            o.class("dotted-step-names");
        }
        if w.layout.steps.iter().any(|s| s.threshold >= 2 && w.links.iter().filter(|f| f.step == s.name && matches!(f.body, Body::Sub { .. })).count() >= 2) {
            o.class("two-functionaries-delegate");
        }
        if !j.violated.is_empty() {
            o.class("model:violated");
            if r.is_ok() {
                o.fail(format!("C15/accepted/{}{}", fault_name, if spec.deeper && depth >= 3 { "/nested" } else { "" }),
                    format!("in_toto_verify = Ok although the model reports {:?} after fault {:?} on delegated step file {}", j.violated, spec.fault, li),
                    "Err");
            }
            let cdir = env.fresh_dir("c15c");
            set_clock(true);
            let (cr, _, _) = run_world(&base, &spec.owners, &cdir, now);
            set_clock(false);
            let _ = std::fs::remove_dir_all(&cdir);
            o.evals = 2;
            if matches!(cr, Some(Ok(_))) {
                let shape: Vec<(u32, usize)> = w.layout.steps.iter().map(|s| (s.threshold, s.pubkeys.len())).collect();
                o.nontrivial(format!("{}|{}|{}|{:?}|{}|{}", fault_name, depth, inner_steps, shape, spec.match_link, subs.len()));
            } else {
                o.class("control-not-ok");
            }
        } else if !j.ambiguous {
            o.class("model:valid");
            match &r {
                Err(e) => {
                    o.class("valid-world-rejected");
                    if (spec.match_link || spec.extra_depth > 0) && (spec.fault == InnerFault::None || !applied) {
                        o.fail("C15/rejects-valid-delegation/match-tied", format!("in_toto_verify = Err({}) on a world the model finds fully valid", e),
                            "Ok: the delegated step contributes first-step materials and last-step products");
                    }
                }
                Ok(b) => {
                    if let (Some(want), in_toto::models::MetadataWrapper::Link(l)) = (&j.summary, &b.metadata) {
                        if !w.layout.steps.is_empty() {
                            let got = evidence_of_link(l);
                            let want_name = serde_json::from_str::<in_toto::models::Metablock>(&info.layout_text)
                                .ok()
                                .and_then(|blk| effective_step_name(&blk, spec.step_name.as_deref()).map(|x| x.to_string()))
                                .unwrap_or_default();
                            if l.name != want_name {
                                o.fail("C15/summary/name", format!("summary name {:?}", l.name), format!("{:?}", want_name));
                            }
                            if got.materials != want.materials {
                                o.fail("C15/summary/materials", format!("{:?}", got.materials), format!("materials of the first step {:?}", want.materials));
                            }
                            if got.products != want.products {
                                o.fail("C15/summary/products", format!("{:?}", got.products), format!("products of the last step {:?}", want.products));
                            }
                            if got.command != want.command || got.byproducts != want.byproducts {
                                o.fail("C15/summary/command-or-byproducts", format!("{:?} {:?}", got.command, got.byproducts), format!("{:?} {:?}", want.command, want.byproducts));
                            }
                        }
                    }
                    if w.layout.steps.len() >= 2 {
                        o.nontrivial(format!("valid|{}|{}|{}|{}", depth, inner_steps, w.layout.steps.len(), spec.match_link));
                    }
                }
            }
        }
        o
    }
    fn nontrivial_floor() -> f64 {
        0.3
    }
    fn class_floors() -> Vec<(&'static str, f64)> {
        vec![("model:violated", 0.2), ("model:valid", 0.1)]
    }
}
