#![allow(dead_code)]
use crate::fw::*;
use proptest::prelude::*;

macro_rules! stub_property {
    ($m:ident, $t:ident, $id:expr) => {
        pub mod $m {
            use super::*;
            pub struct $t;
            impl Property for $t {
                type Spec = u8;
                fn id() -> &'static str { $id }
                fn rule() -> String { "not implemented".into() }
                fn assumptions() -> Vec<String> { vec![] }
                fn cases(_t: Tier) -> u64 { 0 }
                fn strategy(_t: Tier) -> BoxedStrategy<u8> { Just(0u8).boxed() }
                fn check(_s: &u8, _e: &mut Env) -> Outcome { Outcome::new() }
                fn selftest(_e: &mut Env) -> Result<(), String> { Err("property not implemented".into()) }
            }
        }
    };
}

pub mod c01;
pub mod c02;
pub mod c03;
pub mod c04;
pub mod c05;
pub mod c06;
pub mod c07;
pub mod c08;
pub mod c09;
pub mod c10;
pub mod c11;
pub mod c12;
pub mod c13;
pub mod c14;
pub mod c15;
pub mod c16;
pub mod c17;
pub mod c18;
pub mod c19;
pub mod c20;
