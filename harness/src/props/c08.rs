//! C08 Inspections run only after a layout's steps verify, and their failure is fatal.

use std::collections::BTreeMap;
use std::path::Path;

use crate::fw::*;
use crate::gen::keys::*;
use crate::gen::meta::*;
use crate::model::keyid::hex;
use crate::model::rules::*;
use crate::props::c01::now_secs;
use crate::world::*;
use proptest::prelude::*;
use serde::{Deserialize, Serialize};

pub struct C08;

pub const CONTENTS: &[&str] = &["", "a\n", "hello world\n", "print('x')\n", "\u{1}\u{2}binary"];
pub const FILES: &[&str] = &["foo.py", "bar", "a", "sub/x", "sub/y.txt", "out.tar", "payload.link", "sub/x.link"];

#[derive(Clone, Debug, Serialize, Deserialize, PartialEq, Eq)]
pub enum Op {
    Create(u8, u8),
    Append(u8),
    Delete(u8),
    Echo(u8),
    EchoErr(u8),
}

#[derive(Clone, Debug, Serialize, Deserialize, PartialEq, Eq)]
pub enum Ending {
    Exit(u8),
    NotFound,
    Killed,
}

#[derive(Clone, Debug, Serialize, Deserialize, PartialEq, Eq)]
pub struct InspPlan {
    pub ops: Vec<Op>,
    pub ending: Ending,
    pub expected_materials: Vec<RuleSpec>,
    pub expected_products: Vec<RuleSpec>,
}

#[derive(Clone, Debug, Serialize, Deserialize, PartialEq, Eq)]
pub enum StageFault {
    None,
    BadOwnerSignature,
    Expired,
    MissingLink,
    UnauthorizedLink,
    BadlySignedLink,
    UnmetThreshold,
    DisagreeingLinks,
    FailingStepRule,
    FailingSubLayout,
    /// the caller passes no trusted key at all
    NoTrustedKey,
    /// the caller trusts a key that did not sign the layout
    WrongTrustedKey,
    /// the link directory handed to the verifier cannot be resolved (0 missing, 1 dangling symlink, 2 symlink to itself,
    /// 3 a path through a regular file) while the working directory holds the complete, valid set of link files
    UnresolvableLinkDir(u8),
}

#[derive(Clone, Debug, Serialize, Deserialize)]
pub struct Spec {
    /// per step: (product files as (file idx, content idx), two functionaries sign?)
    pub steps: Vec<(Vec<(u8, u8)>, bool)>,
    pub inspections: Vec<InspPlan>,
    /// files present in the working directory before verification
    pub cwd: Vec<(u8, u8)>,
    pub fault: StageFault,
    pub fault_step: u8,
    /// the first inspection carries the name of the first step (names are not required to differ between the two kinds)
    #[serde(default)]
    pub same_name: bool,
}

/// Name of inspection `i`. With `same_name`, inspection 0 is called like step 0 - unless one of its own rules refers
/// to that name (MATCH ... FROM step0), where it would be unclear which of the two is meant.
fn insp_name(spec: &Spec, i: usize) -> String {
    let refers = |p: &InspPlan| p.expected_materials.iter().chain(p.expected_products.iter()).any(|r| matches!(r, RuleSpec::Match { from, .. } if from == "step0"));
    if i == 0 && spec.same_name && !spec.steps.is_empty() && !spec.inspections.iter().any(refers) {
        "step0".to_string()
    } else {
        format!("inspect{}", i)
    }
}

/// Make `link` report something else than its peers: an extra product, or (odd `variant`, when it has a product)
/// the same path recorded for other content under another hash algorithm only.
fn dissent(link: &mut LinkSpec, variant: u8) {
    let first = link.products.keys().next().cloned();
    match first {
        Some(p) if variant % 2 == 1 => {
            link.products.insert(p, [("sha512".to_string(), DIGEST_POOL_512[1].to_string())].into());
        }
        _ => {
            link.products.insert("dissent".into(), digest_of(1));
        }
    }
}

fn sha256_hex(b: &[u8]) -> String {
    hex(ring::digest::digest(&ring::digest::SHA256, b).as_ref())
}

fn digest_of(c: u8) -> Digests {
    [("sha256".to_string(), sha256_hex(CONTENTS[c as usize % CONTENTS.len()].as_bytes()))].into()
}

fn fname(i: u8) -> &'static str {
    FILES[i as usize % FILES.len()]
}

fn sentinel(i: usize) -> String {
    format!("ran-inspection-{}", i)
}

fn sh_quote(s: &str) -> String {
    // contents are from a fixed table without single quotes
    format!("'{}'", s)
}

pub fn script(i: usize, p: &InspPlan) -> Vec<String> {
    match p.ending {
        Ending::NotFound => return vec!["/nonexistent/itv-no-such-command".to_string(), sentinel(i)],
        _ => {}
    }
    let mut s = format!(": > {}", sentinel(i));
    for op in &p.ops {
        s.push_str("; ");
        match op {
            Op::Create(f, c) => {
                let f = fname(*f);
                if let Some((d, _)) = f.rsplit_once('/') {
                    s.push_str(&format!("mkdir -p {}; ", d));
                }
                s.push_str(&format!("printf %s {} > {}", sh_quote(&CONTENTS[*c as usize % CONTENTS.len()].replace('\n', "N")), f));
            }
            Op::Append(f) => {
                let f = fname(*f);
                if let Some((d, _)) = f.rsplit_once('/') {
                    s.push_str(&format!("mkdir -p {}; ", d));
                }
                s.push_str(&format!("printf more >> {}", f));
            }
            Op::Delete(f) => s.push_str(&format!("rm -f {}", fname(*f))),
            Op::Echo(n) => s.push_str(&format!("echo out{}", n)),
            Op::EchoErr(n) => s.push_str(&format!("echo err{} 1>&2", n)),
        }
    }
    match p.ending {
        Ending::Exit(k) => s.push_str(&format!("; exit {}", k)),
        Ending::Killed => s.push_str("; kill -9 $$"),
        Ending::NotFound => {}
    }
    vec!["sh".into(), "-c".into(), s]
}

/// independent snapshot of a directory: path -> sha256 hex
pub fn snapshot(dir: &Path) -> Artifacts {
    fn walk(base: &Path, dir: &Path, out: &mut Artifacts) {
        let Ok(rd) = std::fs::read_dir(dir) else { return };
        for e in rd.flatten() {
            let p = e.path();
            let md = match std::fs::symlink_metadata(&p) {
                Ok(m) => m,
                Err(_) => continue,
            };
            if md.is_dir() {
                walk(base, &p, out);
            } else if md.is_file() {
                let rel = p.strip_prefix(base).unwrap().to_str().unwrap().to_string();
                let bytes = std::fs::read(&p).unwrap_or_default();
                out.insert(rel, [("sha256".to_string(), sha256_hex(&bytes))].into());
            }
        }
    }
    let mut out = Artifacts::new();
    walk(dir, dir, &mut out);
    out
}

fn owner() -> KeySpec {
    KeySpec::Ed { seed: 50, pkcs8: true }
}
fn func(i: usize) -> KeySpec {
    KeySpec::Ed { seed: 60 + i as u8, pkcs8: true }
}

pub fn build(spec: &Spec) -> World {
    let mut steps = vec![];
    let mut links = vec![];
    let mut prev: Artifacts = Artifacts::new();
    for (i, (prods, two)) in spec.steps.iter().enumerate() {
        let name = format!("step{}", i);
        let products: Artifacts = prods.iter().map(|(f, c)| (fname(*f).to_string(), digest_of(*c))).collect();
        let keys: Vec<KeySpec> = if *two { vec![func(2 * i), func(2 * i + 1)] } else { vec![func(2 * i)] };
        steps.push(StepSpec {
            name: name.clone(),
            threshold: keys.len() as u32,
            pubkeys: keys.clone(),
            expected_command: vec![],
            expected_materials: vec![RuleSpec::Allow("*".into())],
            expected_products: vec![RuleSpec::Allow("*".into())],
        });
        for k in &keys {
            links.push(LinkFile {
                step: name.clone(),
                filed_under: k.clone(),
                name_field: None, symlink_store: false,
                body: Body::Link { link: LinkSpec { name: name.clone(), materials: prev.clone(), products: products.clone(), ..Default::default() }, sigs: vec![SigEntry::good(k)], tamper: None },
            });
        }
        prev = products;
    }
    let inspect: Vec<InspSpec> = spec
        .inspections
        .iter()
        .enumerate()
        .map(|(i, p)| InspSpec { name: insp_name(spec, i), run: script(i, p), expected_materials: p.expected_materials.clone(), expected_products: p.expected_products.clone() })
        .collect();
    let mut keys: Vec<KeySpec> = (0..spec.steps.len() * 2).map(func).collect();
    keys.push(func(40));
    let mut w = World { layout: LayoutSpec { expires: 4_000_000_000, readme: String::new(), keys, steps, inspect }, sigs: vec![SigEntry::good(&owner())], tamper: None, links };
    // stage fault
    let n = w.layout.steps.len();
    if n == 0 && !matches!(spec.fault, StageFault::None | StageFault::BadOwnerSignature | StageFault::Expired | StageFault::NoTrustedKey | StageFault::WrongTrustedKey | StageFault::UnresolvableLinkDir(_)) {
        return w;
    }
    let si = if n > 0 { spec.fault_step as usize % n } else { 0 };
    match spec.fault {
        StageFault::None | StageFault::NoTrustedKey | StageFault::WrongTrustedKey | StageFault::UnresolvableLinkDir(_) => {}
        StageFault::BadOwnerSignature => w.sigs[0].corrupt = Some(Corrupt::BitFlip(9)),
        // long ago, or only ninety seconds, five hours or just under a day before this verification
        StageFault::Expired => {
            let now = chrono::Utc::now().timestamp();
            w.layout.expires = match spec.fault_step % 4 {
                0 => 1_000_000_000,
                1 => now - 90,
                2 => now - 5 * 3600,
                _ => now - 86_000,
            }
        }
        StageFault::MissingLink => {
            let name = w.layout.steps[si].name.clone();
            w.links.retain(|f| f.step != name);
        }
        StageFault::UnauthorizedLink => {
            let name = w.layout.steps[si].name.clone();
            for f in w.links.iter_mut().filter(|f| f.step == name) {
                let s = func(40);
                f.filed_under = s.clone();
                if let Body::Link { sigs, .. } = &mut f.body {
                    *sigs = vec![SigEntry::good(&s)];
                }
            }
        }
        StageFault::BadlySignedLink => {
            let name = w.layout.steps[si].name.clone();
            let idx: Vec<usize> = w.links.iter().enumerate().filter(|(_, f)| f.step == name).map(|(i, _)| i).collect();
            if idx.len() >= 2 && spec.fault_step % 2 == 1 {
                // two-party step: the first functionary's link carries a broken signature of its own next to a good one
                // by the second functionary, whose own link is fine - one functionary must not count twice
                let second = w.links[idx[1]].filed_under.clone();
                if let Body::Link { sigs, .. } = &mut w.links[idx[0]].body {
                    sigs[0].corrupt = Some(Corrupt::BitFlip(100));
                    sigs.push(SigEntry::good(&second));
                }
            } else {
                for f in w.links.iter_mut().filter(|f| f.step == name) {
                    if let Body::Link { sigs, .. } = &mut f.body {
                        sigs[0].corrupt = Some(Corrupt::BitFlip(100));
                    }
                }
            }
        }
        StageFault::UnmetThreshold => {
            let name = w.layout.steps[si].name.clone();
            let have = w.links.iter().filter(|f| f.step == name).count();
            w.layout.steps[si].threshold = have as u32 + 1;
            w.layout.steps[si].pubkeys.push(func(40));
        }
        StageFault::DisagreeingLinks => {
            let name = w.layout.steps[si].name.clone();
            let idx: Vec<usize> = w.links.iter().enumerate().filter(|(_, f)| f.step == name).map(|(i, _)| i).collect();
            if idx.len() >= 2 {
                if let Body::Link { link, .. } = &mut w.links[idx[1]].body {
                    dissent(link, spec.fault_step);
                }
            } else {
                // make it a two-party step first
                let k2 = func(40);
                w.layout.steps[si].pubkeys.push(k2.clone());
                w.layout.steps[si].threshold = 2;
                let mut f = w.links[idx[0]].clone();
                f.filed_under = k2.clone();
                if let Body::Link { link, sigs, .. } = &mut f.body {
                    *sigs = vec![SigEntry::good(&k2)];
                    dissent(link, spec.fault_step);
                }
                w.links.push(f);
            }
        }
        StageFault::FailingStepRule => {
            w.layout.steps[si].expected_products.insert(0, RuleSpec::Disallow("*".into()));
            w.layout.steps[si].expected_materials.insert(0, RuleSpec::Require("no-such-artifact".into()));
        }
        StageFault::FailingSubLayout => {
            // replace the step's evidence by an unsigned sub-layout
            let name = w.layout.steps[si].name.clone();
            let k = w.layout.steps[si].pubkeys[0].clone();
            w.layout.steps[si].threshold = 1;
            w.layout.steps[si].pubkeys = vec![k.clone()];
            w.links.retain(|f| f.step != name);
            let inner = World { layout: LayoutSpec { expires: 4_000_000_000, readme: "inner".into(), keys: vec![], steps: vec![], inspect: vec![] }, sigs: vec![], tamper: None, links: vec![] };
            w.links.push(LinkFile { step: name, filed_under: k, name_field: None, symlink_store: false, body: Body::Sub { world: Box::new(inner), placement: Placement::Proper } });
        }
    }
    w
}

fn insp_rules() -> BoxedStrategy<Vec<RuleSpec>> {
    let pat = prop_oneof![
        4 => (0..FILES.len()).prop_map(|i| FILES[i].to_string()),
        2 => Just("*".to_string()), 1 => Just("sub/*".to_string()), 1 => Just("*.py".to_string()), 1 => Just("ran-*".to_string()), 1 => Just("?".to_string()), 1 => Just("*.link".to_string()),
    ];
    let from = prop_oneof![Just("step0".to_string()), Just("step1".to_string()), Just("inspect0".to_string()), Just("absent".to_string())];
    let rule = prop_oneof![
        2 => pat.clone().prop_map(RuleSpec::Create),
        1 => pat.clone().prop_map(RuleSpec::Delete),
        1 => pat.clone().prop_map(RuleSpec::Modify),
        3 => pat.clone().prop_map(RuleSpec::Allow),
        1 => pat.clone().prop_map(RuleSpec::Require),
        3 => pat.clone().prop_map(RuleSpec::Disallow),
        4 => (pat, proptest::option::weighted(0.2, Just("sub".to_string())), any::<bool>(), proptest::option::weighted(0.2, Just("sub".to_string())), from)
            .prop_map(|(pattern, in_src, products, in_dst, from)| RuleSpec::Match { pattern, in_src, products, in_dst, from }),
    ];
    proptest::collection::vec(rule, 0..4).boxed()
}

fn insp_plan() -> BoxedStrategy<InspPlan> {
    let op = prop_oneof![
        3 => (any::<u8>(), any::<u8>()).prop_map(|(f, c)| Op::Create(f, c)),
        1 => any::<u8>().prop_map(Op::Append),
        2 => any::<u8>().prop_map(Op::Delete),
        1 => (0u8..5).prop_map(Op::Echo),
        1 => (0u8..5).prop_map(Op::EchoErr),
    ];
    (
        proptest::collection::vec(op, 0..4),
        prop_oneof![6 => Just(Ending::Exit(0)), 1 => Just(Ending::Exit(1)), 1 => Just(Ending::Exit(2)), 1 => Just(Ending::Exit(126)), 1 => Just(Ending::Exit(127)), 1 => Just(Ending::Exit(255)), 1 => (1u8..=255).prop_map(Ending::Exit), 1 => Just(Ending::NotFound), 1 => Just(Ending::Killed)],
        insp_rules(),
        insp_rules(),
    )
        .prop_map(|(ops, ending, expected_materials, expected_products)| InspPlan { ops, ending, expected_materials, expected_products })
        .boxed()
}

impl Property for C08 {
    type Spec = Spec;
    fn level() -> &'static str {
        "fault_enumeration"
    }
    fn id() -> &'static str {
        "C08"
    }
    fn rule() -> String {
        "Fault enumeration over the stage at which verification fails: layouts with 1-2 steps (real SHA-256 digests of a small content \
         table, one or two functionaries) and 1-2 inspections whose command is sh -c '<sentinel>; <ops>; exit k' with ops in {create file, \
         append, delete, mkdir+create, write stdout/stderr}, k in {0,1,2,126,127,255,random}, plus command-not-found and killed-by-signal; \
         inspection rules over all seven kinds; one fault at a chosen stage in {bad owner signature, no trusted key passed by the caller, a trusted key that did not sign, a link directory that cannot be resolved (missing, dangling or self-referential symlink, path through a file) while the working directory holds all link files, expired, missing link, unauthorised \
         link, badly signed link, unmet threshold, disagreeing links, failing step rule, failing sub-layout} or none; each case runs in a \
         fresh working directory. Oracles: (1) a fault at a pre-inspection stage (confirmed by the ground-truth model) => Err and no \
         sentinel file and no <inspection>.link file exists; (2) no fault and some inspection ends with a non-zero status / cannot run / \
         is killed => Err; (3) no fault, single inspection, exit 0: the harness' independent before/after snapshot of the directory is fed \
         to the reference rule engine with the step evidence; reference rejects => Err. Non-trivial: for (1) the control without the fault \
         runs the inspection (sentinel appears); for (2)/(3) the same layout with exit 0 and no rules verifies Ok; distinct by (fault stage, \
         step count, endings, ops, rules)."
            .into()
    }
    fn assumptions() -> Vec<String> {
        vec!["POSIX sh, printf, rm, mkdir available; worker-private working directory; ring SHA-256 for the snapshot".into()]
    }
    fn cases(tier: Tier) -> u64 {
        tier.pick(4_000, 60_000)
    }
    fn strategy(_tier: Tier) -> BoxedStrategy<Spec> {
        let stage = prop_oneof![
            6 => Just(StageFault::None),
            1 => Just(StageFault::BadOwnerSignature), 1 => Just(StageFault::Expired), 1 => Just(StageFault::MissingLink), 1 => Just(StageFault::UnauthorizedLink),
            1 => Just(StageFault::BadlySignedLink), 1 => Just(StageFault::UnmetThreshold), 1 => Just(StageFault::DisagreeingLinks), 1 => Just(StageFault::FailingStepRule),
            1 => Just(StageFault::FailingSubLayout), 1 => Just(StageFault::NoTrustedKey), 1 => Just(StageFault::WrongTrustedKey), 2 => (0u8..4).prop_map(StageFault::UnresolvableLinkDir),
        ];
        (
            proptest::collection::vec((proptest::collection::vec((any::<u8>(), any::<u8>()), 0..3), any::<bool>()), 1..3),
            prop_oneof![3 => proptest::collection::vec(insp_plan(), 1..2), 1 => proptest::collection::vec(insp_plan(), 2..3)],
            proptest::collection::vec((any::<u8>(), any::<u8>()), 0..4),
            stage,
            any::<u8>(),
            prop_oneof![3 => Just(false), 1 => Just(true)],
        )
            .prop_map(|(steps, inspections, cwd, fault, fault_step, same_name)| Spec { steps, inspections, cwd, fault, fault_step, same_name })
            .boxed()
    }
    fn check(spec: &Spec, env: &mut Env) -> Outcome {
        let mut o = Outcome::new();
        let w = build(spec);
        let now = now_secs();
        let caller: Vec<KeySpec> = match spec.fault {
            StageFault::NoTrustedKey => vec![],
            StageFault::WrongTrustedKey => vec![crate::gen::world::stranger(3)],
            _ => vec![owner()],
        };
        let run_once = |w: &World, env: &mut Env, tag: &str, caller: &[KeySpec]| -> (Option<Result<in_toto::models::Metablock, String>>, Judged, Artifacts, Artifacts, Vec<bool>, Vec<bool>) {
            let root = env.fresh_dir(tag);
            let linkdir = root.join("links");
            let cwd = root.join("cwd");
            std::fs::create_dir_all(&cwd).unwrap();
            for (f, c) in &spec.cwd {
                let p = cwd.join(fname(*f));
                if let Some(d) = p.parent() {
                    std::fs::create_dir_all(d).unwrap();
                }
                std::fs::write(&p, CONTENTS[*c as usize % CONTENTS.len()].replace('\n', "N")).unwrap();
            }
            // an unresolvable link directory: the links are in the working directory instead, where nobody may look
            let unresolvable = match (&spec.fault, tag) {
                (StageFault::UnresolvableLinkDir(k), "c08") => Some(*k),
                _ => None,
            };
            let (info, linkdir) = match unresolvable {
                None => (write_world(w, &linkdir), linkdir),
                Some(k) => {
                    let info = write_world(w, &cwd);
                    let arg = match k % 4 {
                        0 => root.join("no-such-directory"),
                        1 => {
                            let p = root.join("dangling");
                            let _ = std::os::unix::fs::symlink(root.join("gone"), &p);
                            p
                        }
                        2 => {
                            let p = root.join("loop");
                            let _ = std::os::unix::fs::symlink("loop", &p);
                            p
                        }
                        _ => {
                            let f = root.join("a-file");
                            let _ = std::fs::write(&f, "x");
                            f.join("links")
                        }
                    };
                    (info, arg)
                }
            };
            let j = judge(w, &info, caller, now, unresolvable.is_none());
            let before = snapshot(&cwd);
            let old = std::env::current_dir().unwrap();
            std::env::set_current_dir(&cwd).unwrap();
            let r = run_verify(&info, &own_ids(caller), &linkdir, None);
            std::env::set_current_dir(&old).unwrap();
            let mut after = snapshot(&cwd);
            let n = w.layout.inspect.len();
            let sentinels: Vec<bool> = (0..n).map(|i| cwd.join(sentinel(i)).exists()).collect();
            let linkfiles: Vec<bool> = (0..n).map(|i| cwd.join(format!("{}.link", w.layout.inspect[i].name)).exists()).collect();
            for i in 0..n {
                after.remove(&format!("{}.link", w.layout.inspect[i].name));
            }
            let _ = std::fs::remove_dir_all(&root);
            (r, j, before, after, sentinels, linkfiles)
        };
        let (r, j, before, after, sentinels, linkfiles) = run_once(&w, env, "c08", &caller);
        let Some(r) = r else { return o };
        o.class(format!("stage:{:?}", spec.fault));
        for p in &spec.inspections {
            o.class(format!("ending:{}", match p.ending { Ending::Exit(0) => "exit0".to_string(), Ending::Exit(_) => "exit-nonzero".to_string(), Ending::NotFound => "not-found".to_string(), Ending::Killed => "killed".to_string() }));
        }
        o.class(if r.is_ok() { "verdict:ok" } else { "verdict:err" });
        let fp = format!("{:?}|{}|{:?}", spec.fault, spec.steps.len(), spec.inspections);
        if !j.violated.is_empty() {
            // (1) ordering
            o.class("clause1:pre-inspection-failure");
            if r.is_ok() {
                o.fail(format!("C08/accepted-despite-{:?}", spec.fault), format!("Ok although the model reports {:?}", j.violated), "Err");
            }
            if sentinels.iter().any(|s| *s) {
                o.fail(format!("C08/inspection-ran-before-failure/{:?}", spec.fault), format!("sentinel files present {:?} although verification fails at a pre-inspection stage {:?}", sentinels, j.violated), "no inspection command executed");
            }
            if linkfiles.iter().any(|s| *s) {
                o.fail(format!("C08/inspection-link-written-before-failure/{:?}", spec.fault), format!("inspection link files {:?}", linkfiles), "no inspection link file written");
            }
            // control: without the fault the first inspection runs
            let c = build(&Spec { fault: StageFault::None, ..spec.clone() });
            let (_, cj, _, _, cs, _) = run_once(&c, env, "c08c", &[owner()]);
            o.evals = 2;
            let first_runs = !matches!(spec.inspections[0].ending, Ending::NotFound);
            if cj.violated.is_empty() && (cs[0] || !first_runs) {
                o.nontrivial(format!("1|{}", fp));
            } else {
                o.class("control-did-not-run-inspection");
            }
        } else if !j.ambiguous {
            // which inspections are reached: all up to and including the first failing one
            let first_bad = spec.inspections.iter().position(|p| p.ending != Ending::Exit(0));
            if let Some(b) = first_bad {
                o.class("clause2:nonzero-exit");
                if r.is_ok() {
                    o.fail(format!("C08/nonzero-inspection-accepted/{}", match spec.inspections[b].ending { Ending::Exit(_) => "exit-status", Ending::NotFound => "not-found", Ending::Killed => "killed" }),
                        format!("in_toto_verify = Ok although inspection {} ends with {:?}", b, spec.inspections[b].ending), "Err");
                }
                // control: same layout, all exit 0, no rules
                let mut s2 = spec.clone();
                for p in s2.inspections.iter_mut() {
                    p.ending = Ending::Exit(0);
                    p.expected_materials.clear();
                    p.expected_products.clear();
                }
                let c = build(&s2);
                let (cr, _, _, _, _, _) = run_once(&c, env, "c08c", &[owner()]);
                o.evals = 2;
                if matches!(cr, Some(Ok(_))) {
                    o.nontrivial(format!("2|{}", fp));
                } else {
                    o.class("control-not-ok");
                }
            } else if spec.inspections.len() == 1 {
                o.class("clause3:rules");
                let mut links: BTreeMap<String, LinkArtifacts> =
                    j.evidence.iter().map(|(n, e)| (n.clone(), LinkArtifacts { materials: e.materials.clone(), products: e.products.clone() })).collect();
                let iname = insp_name(spec, 0);
                if iname != "inspect0" {
                    o.class("inspection-named-like-a-step");
                }
                links.insert(iname.clone(), LinkArtifacts { materials: before.clone(), products: after.clone() });
                let p = &spec.inspections[0];
                let verdict = spec_rules(&iname, &p.expected_materials, &p.expected_products, &links);
                match verdict {
                    Verdict::Reject(reason) => {
                        o.class("clause3:reference-rejects");
                        if r.is_ok() {
                            o.fail("C08/inspection-rules-not-enforced", format!("in_toto_verify = Ok although the reference rejects the inspection's artifacts: {}; before {:?} after {:?}", reason, before.keys().collect::<Vec<_>>(), after.keys().collect::<Vec<_>>()), "Err");
                        }
                        let mut s2 = spec.clone();
                        s2.inspections[0].expected_materials.clear();
                        s2.inspections[0].expected_products.clear();
                        let c = build(&s2);
                        let (cr, _, _, _, _, _) = run_once(&c, env, "c08c", &[owner()]);
                        o.evals = 2;
                        if matches!(cr, Some(Ok(_))) {
                            o.nontrivial(format!("3|{}", fp));
                        }
                    }
                    Verdict::Accept => {
                        o.class("clause3:reference-accepts");
                        if r.is_err() {
                            o.class("clause3:library-rejects-reference-accepts");
                        } else if !sentinels[0] {
                            o.fail("C08/inspection-not-run", "verification Ok but the inspection's sentinel file is missing", "the inspection command was executed");
                        }
                    }
                    Verdict::Unspecified(_) => {}
                }
            } else {
                o.class("two-inspections-exit0");
            }
        }
        o
    }
    fn nontrivial_floor() -> f64 {
        0.3
    }
    fn class_floors() -> Vec<(&'static str, f64)> {
        vec![("clause1:pre-inspection-failure", 0.2), ("clause2:nonzero-exit", 0.08), ("clause3:reference-rejects", 0.01)]
    }
    fn max_shrink_iters() -> u32 {
        300
    }
}
