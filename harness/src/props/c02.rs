//! C02 Links count for a step only if signed by a functionary authorized for it.

use crate::fw::*;
use crate::gen::edit::*;
use crate::gen::keys::*;
use crate::gen::meta::*;
use crate::gen::world::*;
use crate::props::c01::now_secs;
use crate::world::*;
use proptest::prelude::*;
use serde::{Deserialize, Serialize};

pub struct C02;

#[derive(Clone, Debug, Serialize, Deserialize, PartialEq, Eq)]
pub enum LinkFault {
    /// remove the link file
    Remove,
    /// the file keeps its name but is signed by another functionary only
    SignedByOther(u8),
    /// content edited after signing
    Tamper(TreeEdit),
    /// replace by a validly signed link of a functionary that is in the key table but not authorised for this step
    ByUnauthorizedFunctionary(u8),
    /// replace by a validly signed link of a key that is authorised in the step but missing from the key table
    ByKeyMissingFromTable(u8),
    /// replace by a validly signed link of a complete stranger
    ByStranger(u8),
    /// add a second signature by another functionary
    MultiSigned(u8),
    /// signature made by another key but labelled with this key's id
    Mislabelled(u8),
    /// signature corrupted
    Corrupt(Corrupt),
    /// not a link at all
    Garbage(u8),
    /// the aliasing attack: the key table files key B under this key's id and B signs, labelled with this id
    AliasedTableEntry(u8),
    /// replace the evidence by a *valid sub-layout* (signed by, and filed under, a functionary of the key table
    /// who is not authorised for this step)
    SubLayoutByUnauthorizedFunctionary(u8),
    /// the same by a key that is authorised in the step but missing from the key table
    SubLayoutByKeyMissingFromTable(u8),
    /// a second step with the same name but another (link-less) functionary is appended to the layout
    DuplicateStepOtherFunctionary(u8),
    /// the (validly signed) link is filed under a name whose eight-character id field consists of dots followed
    /// by only the first 0-7 characters of the signer's key id: `<step>.....abcd.link`
    FiledUnderShortenedPrefix(u8),
    /// the link is removed; instead the key table and the step's pubkeys list the same key material declared with a
    /// signature scheme the library does not implement, and a link file named after *that* key's id carries a signature
    /// entry labelled with it (even n: the genuine signature bytes of the real key; odd n: junk)
    UnknownSchemeFunctionary(u8),
    /// the entry in the link directory is a symbolic link named after *another* key's id prefix (even n: another
    /// functionary of the table, odd n: a stranger); it points to the validly signed document, stored elsewhere
    /// under its proper name
    SymlinkUnderForeignPrefix(u8),
    /// the entry is a symbolic link under the proper name pointing to the document stored elsewhere (harmless)
    SymlinkUnderOwnPrefix,
    /// the step additionally authorises the layout *owner's* key (one of the keys the layout is verified with), which
    /// the key table does not define; the owner signs the replacement link and files it under the owner's prefix
    ByOwnerKeyMissingFromTable,
    /// two keys of the key table whose ids share the eight characters a file name carries: one becomes a functionary
    /// of this step, the other (authorised for no step) signs the evidence, filed under its - that is also the
    /// functionary's - prefix
    ByCollidingTableKey(u8),
    /// the link records one artifact under two spellings (`p` and `./p`, different digests); after signing the digest
    /// recorded under `./p` is changed
    TamperSecondSpelling,
}

#[derive(Clone, Debug, Serialize, Deserialize)]
pub struct Spec {
    pub world: World,
    pub owners: Vec<KeySpec>,
    /// (step index, link index within the step, fault)
    pub faults: Vec<(u8, u8, LinkFault)>,
}

const GARBAGE: &[&str] = &["", "{}", "[]", "{\"signatures\":[],\"signed\":{}}", "null", "{\"signatures\":[]}"];

pub fn apply_faults(spec: &Spec) -> (World, Option<serde_json::Value>) {
    let mut w = spec.world.clone();
    let nsteps = w.layout.steps.len();
    let mut alias: Option<serde_json::Value> = None;
    if nsteps == 0 {
        return (w, None);
    }
    for (si, li, fault) in &spec.faults {
        let step = w.layout.steps[*si as usize % nsteps].clone();
        let idxs: Vec<usize> = w.links.iter().enumerate().filter(|(_, f)| f.step == step.name).map(|(i, _)| i).collect();
        if idxs.is_empty() {
            continue;
        }
        let i = idxs[*li as usize % idxs.len()];
        let this_key = w.links[i].filed_under.clone();
        let table = w.layout.keys.clone();
        let others: Vec<KeySpec> = table.iter().filter(|k| material(k) != material(&this_key)).cloned().collect();
        let unauthorized: Vec<KeySpec> = table.iter().filter(|k| !step.pubkeys.iter().any(|p| key_id_str(p) == key_id_str(k))).cloned().collect();
        let pick = |v: &Vec<KeySpec>, n: u8| -> Option<KeySpec> { if v.is_empty() { None } else { Some(v[n as usize % v.len()].clone()) } };
        let base_link = match &w.links[i].body {
            Body::Link { link, .. } => link.clone(),
            _ => continue,
        };
        match fault {
            LinkFault::Remove => {
                w.links.remove(i);
            }
            LinkFault::SymlinkUnderForeignPrefix(n) => {
                let foreign = if n % 2 == 0 { pick(&others, *n).unwrap_or_else(|| stranger(*n)) } else { stranger(n.wrapping_add(90)) };
                w.links[i].name_field = Some(prefix8(&foreign));
                w.links[i].symlink_store = true;
            }
            LinkFault::SymlinkUnderOwnPrefix => {
                w.links[i].symlink_store = true;
            }
            LinkFault::FiledUnderShortenedPrefix(n) => {
                let keep = (*n % 8) as usize;
                let id = key_id_str(&this_key);
                w.links[i].name_field = Some(format!("{}{}", ".".repeat(8 - keep), &id[..keep]));
            }
            LinkFault::SignedByOther(n) => {
                if let (Some(o), Body::Link { sigs, .. }) = (pick(&others, *n), &mut w.links[i].body) {
                    *sigs = vec![SigEntry::good(&o)];
                }
            }
            LinkFault::Tamper(e) => {
                if let Body::Link { tamper, .. } = &mut w.links[i].body {
                    *tamper = Some(e.clone());
                }
            }
            LinkFault::TamperSecondSpelling => {
                if let Body::Link { link, tamper, .. } = &mut w.links[i].body {
                    let k = link.products.keys().next().cloned().unwrap_or_else(|| "zz".to_string());
                    let d0: Digests = [("sha256".to_string(), DIGEST_POOL_256[0].to_string())].into();
                    let d1: Digests = [("sha256".to_string(), DIGEST_POOL_256[1].to_string())].into();
                    link.products.entry(k.clone()).or_insert(d0);
                    link.products.insert(format!("./{}", k), d1);
                    *tamper = Some(TreeEdit { site: u16::MAX - 1, kind: 10, arg: String::new() });
                }
            }
            LinkFault::ByUnauthorizedFunctionary(n) => {
                // in a large key table prefer an unauthorised key whose rank (by key id) is congruent modulo 64 to the
                // rank of an authorised one - where position-indexed tables of 64 would alias
                let mut ranked: Vec<String> = table.iter().map(key_id_str).collect();
                ranked.sort();
                let rank = |k: &KeySpec| ranked.iter().position(|x| *x == key_id_str(k)).unwrap_or(0);
                let auth_ranks: Vec<usize> = step.pubkeys.iter().filter(|k| table.iter().any(|t| key_id_str(t) == key_id_str(k))).map(|k| rank(k) % 64).collect();
                let aliasing: Vec<KeySpec> = unauthorized.iter().filter(|u| table.len() > 64 && auth_ranks.contains(&(rank(u) % 64))).cloned().collect();
                if let Some(u) = pick(&aliasing, *n).or_else(|| pick(&unauthorized, *n)) {
                    w.links[i] = LinkFile { step: step.name.clone(), filed_under: u.clone(), name_field: None, symlink_store: false, body: Body::Link { link: base_link, sigs: vec![SigEntry::good(&u)], tamper: None } };
                }
            }
            LinkFault::ByKeyMissingFromTable(n) => {
                let s = stranger(*n);
                let sidx = *si as usize % nsteps;
                w.layout.steps[sidx].pubkeys.push(s.clone());
                w.links[i] = LinkFile { step: step.name.clone(), filed_under: s.clone(), name_field: None, symlink_store: false, body: Body::Link { link: base_link, sigs: vec![SigEntry::good(&s)], tamper: None } };
            }
            LinkFault::ByOwnerKeyMissingFromTable => {
                if let Some(owner) = spec.owners.first().cloned() {
                    let sidx = *si as usize % nsteps;
                    w.layout.keys.retain(|k| material(k) != material(&owner));
                    w.layout.steps[sidx].pubkeys.push(owner.clone());
                    w.links[i] = LinkFile { step: step.name.clone(), filed_under: owner.clone(), name_field: None, symlink_store: false, body: Body::Link { link: base_link, sigs: vec![SigEntry::good(&owner)], tamper: None } };
                }
            }
            LinkFault::ByCollidingTableKey(n) => {
                let (mut p, mut q) = collider_pair(*n);
                if n & 4 != 0 {
                    std::mem::swap(&mut p, &mut q);
                }
                // one file name, one file: only when nothing else of this step is filed under that prefix
                if w.links.iter().any(|f| f.step == step.name && f.name_field.clone().unwrap_or_else(|| prefix8(&f.filed_under)) == prefix8(&q)) {
                    continue;
                }
                let sidx = *si as usize % nsteps;
                w.layout.steps[sidx].pubkeys.push(p.clone());
                for k in [&p, &q] {
                    if !w.layout.keys.iter().any(|t| key_id_str(t) == key_id_str(k)) {
                        w.layout.keys.push(k.clone());
                    }
                }
                w.links[i] = LinkFile { step: step.name.clone(), filed_under: q.clone(), name_field: None, symlink_store: false, body: Body::Link { link: base_link, sigs: vec![SigEntry::good(&q)], tamper: None } };
            }
            LinkFault::ByStranger(n) => {
                let s = stranger(n.wrapping_add(20));
                w.links[i] = LinkFile { step: step.name.clone(), filed_under: s.clone(), name_field: None, symlink_store: false, body: Body::Link { link: base_link, sigs: vec![SigEntry::good(&s)], tamper: None } };
            }
            LinkFault::MultiSigned(n) => {
                if let (Some(o), Body::Link { sigs, .. }) = (pick(&others, *n), &mut w.links[i].body) {
                    if n % 2 == 0 {
                        sigs.push(SigEntry::good(&o));
                    } else {
                        sigs.insert(0, SigEntry::good(&o));
                    }
                }
            }
            LinkFault::Mislabelled(n) => {
                let o = pick(&others, *n).unwrap_or_else(|| stranger(*n));
                if let Body::Link { sigs, .. } = &mut w.links[i].body {
                    *sigs = vec![SigEntry { signer: o, label: Some(this_key.clone()), corrupt: None, label_upper: false }];
                }
            }
            LinkFault::Corrupt(c) => {
                if let Body::Link { sigs, .. } = &mut w.links[i].body {
                    if let Some(s) = sigs.first_mut() {
                        s.corrupt = Some(c.clone());
                    }
                }
            }
            LinkFault::Garbage(n) => {
                w.links[i].body = Body::Garbage(GARBAGE[*n as usize % GARBAGE.len()].to_string());
            }
            LinkFault::SubLayoutByUnauthorizedFunctionary(n) | LinkFault::SubLayoutByKeyMissingFromTable(n) => {
                let signer = if matches!(fault, LinkFault::SubLayoutByUnauthorizedFunctionary(_)) {
                    match pick(&unauthorized, *n) {
                        Some(u) => u,
                        None => continue,
                    }
                } else {
                    let s = stranger(n.wrapping_add(100));
                    let sidx = *si as usize % nsteps;
                    w.layout.steps[sidx].pubkeys.push(s.clone());
                    s
                };
                // a valid inner layout without steps: nothing else could make it fail
                let inner = World {
                    layout: LayoutSpec { expires: 4_000_000_000, readme: "delegated".into(), keys: vec![], steps: vec![], inspect: vec![] },
                    sigs: vec![SigEntry::good(&signer)],
                    tamper: None,
                    links: vec![],
                };
                w.links[i] = LinkFile { step: step.name.clone(), filed_under: signer, name_field: None, symlink_store: false, body: Body::Sub { world: Box::new(inner), placement: Placement::Proper } };
            }
            LinkFault::DuplicateStepOtherFunctionary(n) => {
                // a functionary of the key table that has no link file for this step name
                let have: Vec<String> = w.links.iter().filter(|f| f.step == step.name).map(|f| key_id_str(&f.filed_under)).collect();
                let free: Vec<KeySpec> = table.iter().filter(|k| !have.contains(&key_id_str(k))).cloned().collect();
                let Some(k) = pick(&free, *n) else { continue };
                let mut dup = step.clone();
                dup.pubkeys = vec![k];
                dup.threshold = 1;
                w.layout.steps.push(dup);
                // Step names are unique identifiers in the specification; with duplicates the statement is only
                // clear-cut when every step demands at least one link explicitly, so threshold 0 (whose "at least
                // one" the library enforces per *name*) is not combined with duplicate names.
                let sidx = *si as usize % nsteps;
                if w.layout.steps[sidx].threshold == 0 {
                    w.layout.steps[sidx].threshold = 1;
                }
            }
            LinkFault::UnknownSchemeFunctionary(n) => {
                // handled at the wire level (key table, pubkeys) and by an extra file; the model just loses the link
                let u = unknown_scheme_key(&this_key);
                let uid = serde_json::to_value(u.key_id()).unwrap().as_str().unwrap().to_string();
                let (text, _) = signed_text(&in_toto::models::MetadataWrapper::Link(base_link.to_lib()), &[SigEntry::good(&this_key)], &None);
                let mut doc: serde_json::Value = serde_json::from_str(&text).unwrap();
                doc["signatures"][0]["keyid"] = serde_json::json!(uid);
                if n % 2 == 1 {
                    doc["signatures"][0]["sig"] = serde_json::json!("00ff00ff");
                }
                alias = Some(serde_json::json!({"under": uid, "key": serde_json::to_value(&u).unwrap(), "lie": false,
                    "pubkeys_of_step": *si as usize % nsteps, "file": format!("{}.{}.link", step.name, &uid[..8]), "text": doc.to_string()}));
                w.links.remove(i);
            }
            LinkFault::AliasedTableEntry(n) => {
                // handled at the wire level: the returned alias instruction rewrites the key table
                // B must be a different key than the one whose id it is filed under (else the entry is honest)
                let mut b = stranger(n.wrapping_add(60));
                if material(&b) == material(&this_key) {
                    b = stranger(n.wrapping_add(61));
                }
                if let Body::Link { sigs, .. } = &mut w.links[i].body {
                    *sigs = vec![SigEntry { signer: b.clone(), label: Some(this_key.clone()), corrupt: None, label_upper: false }];
                }
                alias = Some(serde_json::json!({"under": key_id_str(&this_key), "key": crate::model::keyid::key_wire(&b).1, "lie": n % 2 == 0}));
            }
        }
    }
    (w, alias)
}

/// Materialise with an optional aliased key-table entry: the layout is signed *with* the
/// aliased table (the owner wrote it that way), i.e. the wire tree is edited before signing.
fn write_with_alias(base: &World, owners: &[KeySpec], w: &World, alias: &Option<serde_json::Value>, dir: &std::path::Path) -> MatInfo {
    // history on disk: the directory first holds the fault-free world (verified once), then the
    // faulty population replaces it at the same paths with the same modification times
    let mut info = write_world_after(base, owners, w, dir);
    if let Some(a) = alias {
        let meta = in_toto::models::MetadataWrapper::Layout(w.layout.to_lib());
        let mut tree = serde_json::to_value(&meta).unwrap();
        let mut doc = a["key"].clone();
        if a["lie"].as_bool().unwrap_or(false) {
            doc["keyid"] = a["under"].clone();
        }
        tree["keys"][a["under"].as_str().unwrap()] = doc;
        if let Some(si) = a["pubkeys_of_step"].as_u64() {
            if let Some(list) = tree["steps"][si as usize]["pubkeys"].as_array_mut() {
                list.push(a["under"].clone());
            }
        }
        if let (Some(name), Some(text)) = (a["file"].as_str(), a["text"].as_str()) {
            if !name.contains('/') && !name.contains('\0') {
                let _ = std::fs::write(dir.join(name), text);
                pin_mtimes(dir);
            }
        }
        // what is enforced is whatever this document parses to; sign exactly that
        let text0 = serde_json::to_string(&serde_json::json!({"signatures": [], "signed": tree})).unwrap();
        if let Ok(b) = serde_json::from_str::<in_toto::models::Metablock>(&text0) {
            let (_, _) = (0, 0);
            let sks: Vec<_> = w.sigs.iter().map(|e| private(&e.signer)).collect();
            let refs: Vec<&in_toto::crypto::PrivateKey> = sks.iter().map(|k| &**k).collect();
            if let Ok(signed) = in_toto::models::Metablock::new(b.metadata.clone(), &refs) {
                let sigs = serde_json::to_value(&signed.signatures).unwrap();
                info.layout_text = serde_json::to_string(&serde_json::json!({"signatures": sigs, "signed": tree})).unwrap();
                info.layout = DocInfo { parses: true, tampered: false };
            }
        }
    }
    info
}

fn fault_strategy() -> BoxedStrategy<LinkFault> {
    prop_oneof![
        2 => Just(LinkFault::Remove),
        2 => any::<u8>().prop_map(LinkFault::SignedByOther),
        2 => tree_edit().prop_map(LinkFault::Tamper),
        4 => any::<u8>().prop_map(LinkFault::ByUnauthorizedFunctionary),
        2 => any::<u8>().prop_map(LinkFault::ByKeyMissingFromTable),
        1 => any::<u8>().prop_map(LinkFault::ByStranger),
        2 => any::<u8>().prop_map(LinkFault::MultiSigned),
        2 => any::<u8>().prop_map(LinkFault::Mislabelled),
        1 => prop_oneof![any::<u16>().prop_map(Corrupt::BitFlip), Just(Corrupt::Truncate), Just(Corrupt::Empty)].prop_map(LinkFault::Corrupt),
        1 => any::<u8>().prop_map(LinkFault::Garbage),
        2 => any::<u8>().prop_map(LinkFault::AliasedTableEntry),
        2 => any::<u8>().prop_map(LinkFault::SubLayoutByUnauthorizedFunctionary),
        1 => any::<u8>().prop_map(LinkFault::SubLayoutByKeyMissingFromTable),
        2 => any::<u8>().prop_map(LinkFault::DuplicateStepOtherFunctionary),
        2 => any::<u8>().prop_map(LinkFault::FiledUnderShortenedPrefix),
        2 => any::<u8>().prop_map(LinkFault::UnknownSchemeFunctionary),
        2 => any::<u8>().prop_map(LinkFault::SymlinkUnderForeignPrefix),
        1 => Just(LinkFault::SymlinkUnderOwnPrefix),
        2 => Just(LinkFault::ByOwnerKeyMissingFromTable),
        2 => any::<u8>().prop_map(LinkFault::ByCollidingTableKey),
        2 => Just(LinkFault::TamperSecondSpelling),
    ]
    .boxed()
}

impl Property for C02 {
    type Spec = Spec;
    fn id() -> &'static str {
        "C02"
    }
    fn rule() -> String {
        "Generated: valid worlds with 1-4 steps, thresholds 0-3, functionary pool of 2-5 keys, every assignment of keys to step.pubkeys, then \
         1-3 faults on chosen (step, link) files: removed; signed by another functionary but filed under this key's prefix; tampered after \
         signing (also: one artifact recorded under the spellings p and ./p, the digest under ./p changed afterwards); replaced by a valid link of a functionary authorised only for other steps; of a key authorised in the step but absent \
         from the key table; of a stranger; signed by a key of the key table that is authorised for no step while a *different* key whose id starts with the same eight characters (a pair found by search) is a functionary of the step; filed under a name whose id field is dots plus only the first 0-7 characters of the signer's id; entered as a symbolic link named after another key's prefix that points to the properly named document elsewhere; replaced by a link attributed to the same key material declared (in key table and pubkeys) with an unimplemented signature scheme; multiply signed; signature by another key labelled with this key's id; corrupted signature; \
         garbage; aliased key-table entry (table files key B under id(A), B signs labelled id(A)); evidence replaced by a valid \
         sub-layout of a functionary who is not authorised for the step / missing from the key table. Enumerated: 2 steps x 2 keys, every \
         (step,key) file in {absent, valid by that key, signed by the other key under this name, tampered, garbage}: 625 populations. \
         Oracle: Ok only if for every step |{k in step.pubkeys and layout.keys : a file step.<prefix(k)>.link has an intact signature by \
         k}| >= max(threshold,1) (ground truth by construction). Non-trivial: the necessary condition is violated for a step that has a \
         present-but-non-counting file, and the fault-free control verifies Ok; distinct by (layout shape, faults). History on disk: the link directory first holds the fault-free world, which is verified once; the faulty population is then written over it at the same paths with one fixed modification time (signature faults and digit edits keep the file size)."
            .into()
    }
    fn assumptions() -> Vec<String> {
        vec!["ring sound; 8-hex-digit prefixes of generated key ids are distinct (checked: colliding cases are discarded)".into()]
    }
    fn cases(tier: Tier) -> u64 {
        tier.pick(10_000, 300_000)
    }
    fn strategy(_tier: Tier) -> BoxedStrategy<Spec> {
        let cfg = Cfg { min_steps: 1, max_steps: 4, max_owners: 1, big: true, ..Cfg::basic() };
        let cfg_mixed = Cfg { min_steps: 1, max_steps: 2, max_owners: 1, cheap: false, ..Cfg::basic() };
        (
            prop_oneof![5 => valid_world(cfg), 1 => valid_world(cfg_mixed)],
            proptest::collection::vec((any::<u8>(), any::<u8>(), fault_strategy()), 1..4),
        )
            .prop_map(|((world, owners), faults)| Spec { world, owners, faults })
            .boxed()
    }
    fn enumerate(_tier: Tier, worker: usize, workers: usize) -> Box<dyn Iterator<Item = Spec>> {
        let a = KeySpec::Ed { seed: 1, pkcs8: true };
        let b = KeySpec::Ed { seed: 2, pkcs8: true };
        let owner = KeySpec::Ed { seed: 9, pkcs8: true };
        let mk_step = |n: &str, k: &KeySpec| StepSpec { name: n.into(), threshold: 1, pubkeys: vec![k.clone()], expected_command: vec![], expected_materials: vec![], expected_products: vec![] };
        let layout = LayoutSpec { expires: 4_000_000_000, readme: String::new(), keys: vec![a.clone(), b.clone()], steps: vec![mk_step("s0", &a), mk_step("s1", &b)], inspect: vec![] };
        let mut out = vec![];
        let mut idx = 0usize;
        for code in 0..625u32 {
            if idx % workers == worker {
                let mut links = vec![];
                let mut c = code;
                for (step, key, other) in [("s0", &a, &b), ("s0", &b, &a), ("s1", &a, &b), ("s1", &b, &a)] {
                    let state = c % 5;
                    c /= 5;
                    let link = LinkSpec { name: step.into(), ..Default::default() };
                    let body = match state {
                        0 => continue,
                        1 => Body::Link { link, sigs: vec![SigEntry::good(key)], tamper: None },
                        2 => Body::Link { link, sigs: vec![SigEntry::good(other)], tamper: None },
                        3 => Body::Link { link, sigs: vec![SigEntry::good(key)], tamper: Some(TreeEdit { site: 40000, kind: 0, arg: "x".into() }) },
                        _ => Body::Garbage("{}".into()),
                    };
                    links.push(LinkFile { step: step.into(), filed_under: key.clone(), name_field: None, symlink_store: false, body });
                }
                out.push(Spec { world: World { layout: layout.clone(), sigs: vec![SigEntry::good(&owner)], tamper: None, links }, owners: vec![owner.clone()], faults: vec![] });
            }
            idx += 1;
        }
        Box::new(out.into_iter())
    }
    fn enumeration_exhaustive(_tier: Tier) -> Option<String> {
        Some("2 steps x 2 keys: all 5^4 = 625 link-directory populations over {absent, valid, signed by the other key, tampered, garbage}".into())
    }
    fn concurrent() -> bool {
        true
    }
    fn check(spec: &Spec, env: &mut Env) -> Outcome {
        let mut o = Outcome::new();
        let (w, alias) = apply_faults(spec);
        // discard prefix collisions among all keys involved
        let mut prefixes = std::collections::BTreeMap::new();
        for k in w.layout.keys.iter().chain(w.links.iter().map(|f| &f.filed_under)).chain(w.layout.steps.iter().flat_map(|s| s.pubkeys.iter())) {
            if let Some(prev) = prefixes.insert(prefix8(k), key_id_str(k)) {
                // (the searched-for colliding pairs are deliberate; see ByCollidingTableKey)
                if prev != key_id_str(k) && collider_of(k).map(|c| key_id_str(&c) != prev).unwrap_or(true) {
                    o.class("discarded:prefix-collision");
                    return o;
                }
            }
        }
        // one file name, one file
        let mut names = std::collections::BTreeSet::new();
        for f in &w.links {
            if !names.insert((f.step.clone(), f.name_field.clone().unwrap_or_else(|| prefix8(&f.filed_under)))) && collider_of(&f.filed_under).is_some() {
                o.class("discarded:two-files-one-name");
                return o;
            }
        }
        let now = now_secs();
        let dir = env.fresh_dir("c02");
        let info = write_with_alias(&spec.world, &spec.owners, &w, &alias, &dir);
        let j = judge(&w, &info, &spec.owners, now, true);
        let r = run_verify(&info, &own_ids(&spec.owners), &dir, None);
        let Some(r) = r else {
            o.class("layout-unparseable");
            let _ = std::fs::remove_dir_all(&dir);
            return o;
        };
        for (_, _, f) in &spec.faults {
            o.class(format!("fault:{}", format!("{:?}", f).split(|c| c == '(' || c == ' ').next().unwrap_or("")));
        }
        o.class(if r.is_ok() { "verdict:ok" } else { "verdict:err" });
        let unmet: Vec<&Cond> = j.violated.iter().filter(|c| matches!(c, Cond::Threshold(_))).collect();
        // present-but-non-counting files
        let mut noncounting = false;
        for s in &w.layout.steps {
            let files = w.links.iter().filter(|f| f.step == s.name).count();
            if files > j.good.get(&s.name).map(|g| g.len()).unwrap_or(0) {
                noncounting = true;
            }
        }
        if !unmet.is_empty() {
            o.class("necessary-condition-violated");
            if r.is_ok() {
                let unmet_steps: Vec<String> = unmet.iter().filter_map(|c| if let Cond::Threshold(s) = c { Some(s.clone()) } else { None }).collect();
                let nsteps = spec.world.layout.steps.len().max(1);
                let kinds: Vec<String> = spec
                    .faults
                    .iter()
                    .filter(|(si, _, _)| unmet_steps.contains(&spec.world.layout.steps[*si as usize % nsteps].name))
                    .map(|(_, _, f)| format!("{:?}", f).split(|c| c == '(' || c == ' ').next().unwrap_or("").to_string())
                    .collect();
                let priority = ["DuplicateStepOtherFunctionary", "SubLayoutByUnauthorizedFunctionary", "SubLayoutByKeyMissingFromTable", "ByUnauthorizedFunctionary", "AliasedTableEntry", "ByKeyMissingFromTable", "ByStranger", "Mislabelled", "SignedByOther", "MultiSigned", "Tamper", "Corrupt", "Garbage", "Remove"];
                let cause = if spec.faults.is_empty() {
                    "enumerated-population".to_string()
                } else {
                    priority.iter().find(|p| kinds.iter().any(|k| k == *p)).map(|s| s.to_string()).unwrap_or_else(|| "other".into())
                };
                o.fail(format!("C02/accepted/{}", cause),
                    format!("in_toto_verify = Ok although {:?}; counted keys per step {:?}; steps {:?}; files {:?}", unmet, j.good,
                        w.layout.steps.iter().map(|s| (s.name.clone(), s.threshold, s.pubkeys.iter().map(prefix8).collect::<Vec<_>>())).collect::<Vec<_>>(),
                        w.links.iter().map(|f| format!("{}.{}", f.step, prefix8(&f.filed_under))).collect::<Vec<_>>()),
                    "Err: some step lacks enough authorised, validly signed links");
            }
            let cdir = env.fresh_dir("c02c");
            let (cr, _, _) = if spec.faults.is_empty() {
                // enumerated population: control = both files valid
                let mut c = w.clone();
                c.links = w.layout.steps.iter().map(|s| LinkFile { step: s.name.clone(), filed_under: s.pubkeys[0].clone(), name_field: None, symlink_store: false, body: Body::Link { link: LinkSpec { name: s.name.clone(), ..Default::default() }, sigs: vec![SigEntry::good(&s.pubkeys[0])], tamper: None } }).collect();
                run_world(&c, &spec.owners, &cdir, now)
            } else {
                run_world(&spec.world, &spec.owners, &cdir, now)
            };
            o.evals = 2;
            if matches!(cr, Some(Ok(_))) {
                if noncounting {
                    o.nontrivial(format!("{:?}|{:?}|{:?}", w.layout.steps.iter().map(|s| (s.threshold, s.pubkeys.len())).collect::<Vec<_>>(), spec.faults, w.links.iter().map(|f| (f.step.clone(), prefix8(&f.filed_under))).collect::<Vec<_>>()));
                }
            } else {
                o.class("control-not-ok");
            }
            let _ = std::fs::remove_dir_all(&cdir);
        } else {
            o.class("necessary-condition-holds");
            if r.is_ok() {
                o.class("positive:accepted");
                if noncounting {
                    o.class("positive:accepted-with-noncounting-file");
                }
            }
        }
        let _ = std::fs::remove_dir_all(&dir);
        o
    }
    fn nontrivial_floor() -> f64 {
        0.2
    }
    fn class_floors() -> Vec<(&'static str, f64)> {
        vec![("positive:accepted", 0.03)]
    }
}
