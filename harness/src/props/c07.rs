//! C07 Multi-party steps require identical recorded artifacts from all signers.

use crate::fw::*;
use crate::gen::keys::*;
use crate::gen::meta::*;
use crate::gen::world::*;
use crate::props::c01::now_secs;
use crate::world::*;
use proptest::prelude::*;
use serde::{Deserialize, Serialize};

pub struct C07;

#[derive(Clone, Debug, Serialize, Deserialize, PartialEq, Eq)]
pub enum Dissent {
    RenamePath,
    ChangeDigest,
    ChangeAlgorithm,
    AddAlgorithm,
    AddEntry,
    RemoveEntry,
    /// a further entry that spells an existing path differently (`./p`, `p/.`, `x/../p`, doubled slash) and carries another digest
    AddAliasEntry,
    /// the digest value cut to its first half (still hexadecimal)
    TruncateDigest,
    /// one entry is reported under the other heading: the first product as a material, or the last material as a
    /// product (both maps differ, their concatenation in path order may not)
    MoveAcrossSides,
}

#[derive(Clone, Debug, Serialize, Deserialize)]
pub struct Spec {
    pub world: World,
    pub owners: Vec<KeySpec>,
    pub step: u8,
    /// position of the dissenting link among the step's links ordered by key id (0 = first, 255 = last)
    pub position: u8,
    pub products_side: bool,
    pub dissent: Dissent,
    pub entry: u8,
    /// the dissenting link is signed by the *same key material under its other key id* (also listed in the key table
    /// and, last, in the step's pubkeys), while the link under the first id agrees with the others
    #[serde(default)]
    pub twin: bool,
}

/// Make step `i` a multi-party step (threshold >= 2 with >= threshold links); None if impossible.
fn force_multiparty(w: &World, i: usize) -> Option<World> {
    let mut w = w.clone();
    let s = w.layout.steps.get(i)?.clone();
    // a step delegated by two functionaries (threshold 2) is multi-party already
    if s.threshold >= 2 && w.links.iter().filter(|f| f.step == s.name && matches!(f.body, Body::Sub { .. })).count() >= 2 {
        return Some(w);
    }
    if s.pubkeys.len() < 2 {
        return None;
    }
    let have: Vec<KeySpec> = w.links.iter().filter(|f| f.step == s.name).map(|f| f.filed_under.clone()).collect();
    if w.links.iter().any(|f| f.step == s.name && !matches!(f.body, Body::Link { .. })) {
        return None;
    }
    let template = w.links.iter().find(|f| f.step == s.name)?.clone();
    let mut n = have.len();
    for k in &s.pubkeys {
        if n >= 2.max(s.threshold as usize) {
            break;
        }
        if !have.contains(k) {
            let mut f = template.clone();
            f.filed_under = k.clone();
            if let Body::Link { sigs, .. } = &mut f.body {
                *sigs = vec![SigEntry::good(k)];
            }
            w.links.push(f);
            n += 1;
        }
    }
    if n < 2 {
        return None;
    }
    if w.layout.steps[i].threshold < 2 {
        w.layout.steps[i].threshold = 2;
    }
    if (w.layout.steps[i].threshold as usize) > n {
        w.layout.steps[i].threshold = n as u32;
    }
    Some(w)
}

fn dissenting(a: &Artifacts, d: &Dissent, entry: u8) -> Artifacts {
    let mut out = a.clone();
    let keys: Vec<String> = a.keys().cloned().collect();
    let fresh_digest = |cur: &str| if cur == DIGEST_POOL_256[0] { DIGEST_POOL_256[1].to_string() } else { DIGEST_POOL_256[0].to_string() };
    if keys.is_empty() {
        out.insert("extra".into(), [("sha256".to_string(), DIGEST_POOL_256[2].to_string())].into());
        return out;
    }
    let k = keys[entry as usize % keys.len()].clone();
    match d {
        Dissent::RenamePath => {
            let v = out.remove(&k).unwrap();
            out.insert(format!("{}.renamed", k), v);
        }
        Dissent::ChangeDigest => {
            let m = out.get_mut(&k).unwrap();
            let (alg, val) = m.iter().next().map(|(a, v)| (a.clone(), v.clone())).unwrap();
            let newv = if alg == "sha256" { fresh_digest(&val) } else if val == DIGEST_POOL_512[0] { DIGEST_POOL_512[1].to_string() } else { DIGEST_POOL_512[0].to_string() };
            m.insert(alg, newv);
        }
        Dissent::ChangeAlgorithm => {
            let m = out.get_mut(&k).unwrap();
            let had256 = m.contains_key("sha256");
            m.clear();
            if had256 {
                m.insert("sha512".into(), DIGEST_POOL_512[0].to_string());
            } else {
                m.insert("sha256".into(), DIGEST_POOL_256[0].to_string());
            }
        }
        Dissent::AddAlgorithm => {
            let m = out.get_mut(&k).unwrap();
            if m.contains_key("sha512") {
                if m.contains_key("sha256") {
                    m.remove("sha512");
                } else {
                    m.insert("sha256".into(), DIGEST_POOL_256[0].to_string());
                }
            } else {
                m.insert("sha512".into(), DIGEST_POOL_512[0].to_string());
            }
        }
        Dissent::AddEntry => {
            out.insert("zz-extra".into(), [("sha256".to_string(), DIGEST_POOL_256[2].to_string())].into());
        }
        Dissent::RemoveEntry => {
            out.remove(&k);
        }
        Dissent::AddAliasEntry => {
            let alias = match entry / 16 % 4 {
                0 | 1 => format!("./{}", k),
                2 => format!("x/../{}", k),
                _ => {
                    if k.contains('/') {
                        k.replacen('/', "//", 1)
                    } else {
                        format!("{}/.", k)
                    }
                }
            };
            let cur = a[&k].get("sha256").cloned().unwrap_or_default();
            out.insert(alias, [("sha256".to_string(), fresh_digest(&cur))].into());
        }
        // (two maps involved: applied by the caller on plain links; inside delegations it degrades to a removal)
        Dissent::MoveAcrossSides => {
            out.remove(&k);
        }
        Dissent::TruncateDigest => {
            let m = out.get_mut(&k).unwrap();
            let (alg, val) = m.iter().next().map(|(a, v)| (a.clone(), v.clone())).unwrap();
            m.insert(alg, val[..val.len() / 2 & !1].to_string());
        }
    }
    out
}

impl Property for C07 {
    type Spec = Spec;
    fn id() -> &'static str {
        "C07"
    }
    fn rule() -> String {
        "Generated: valid worlds in which one step is made multi-party (threshold t in 2..4, k in t..4 authorised, validly signed links \
         with identical materials and products), then exactly one link (or, when two functionaries delegated the step, the inner evidence of one functionary's own copy) is edited and re-signed by its own key: one path renamed, one digest \
         changed, one algorithm changed or added/removed, one entry added or removed, one further entry that spells an existing path differently (./p, x/../p, doubled slash, p/.) with another digest, or one digest value cut to its first half - in materials or in products; or one entry reported under the other heading (first product as a material, last material as a product); the dissenter's position \
         in key-id order is varied (first/middle/last). Oracle: Ok only if all counted links of every step with threshold >= 2 have equal \
         materials and equal products. In a fifth of the cases the dissenting link is signed under the second key id of one key (Ed25519 raw/PKCS#8 import, RSA under its other PSS scheme) that the step also authorises, while the link under the first id agrees. The dissenting world is written over the agreeing one in the same link directory after the agreeing one was verified there once (same paths, one fixed modification time; ChangeDigest/RenamePath keep the file size). Non-trivial: the dissent is real (maps differ) and the control without dissent verifies Ok; distinct \
         by (t, k, edit kind, side, position, layout shape)."
            .into()
    }
    fn assumptions() -> Vec<String> {
        vec!["ground truth by construction; ring sound".into()]
    }
    fn cases(tier: Tier) -> u64 {
        tier.pick(8_000, 200_000)
    }
    fn strategy(_tier: Tier) -> BoxedStrategy<Spec> {
        let cfg = Cfg { min_steps: 1, max_steps: 3, max_owners: 1, max_threshold: 4, two_digests: true, big: true, ..Cfg::basic() };
        let cfg_sub = Cfg { min_steps: 1, max_steps: 2, max_owners: 1, max_threshold: 2, sub_depth: 1, multi_sub: true, ..Cfg::basic() };
        (
            prop_oneof![4 => valid_world(cfg), 1 => valid_world(cfg_sub)],
            any::<u8>(),
            prop_oneof![Just(0u8), Just(128u8), Just(255u8), any::<u8>()],
            any::<bool>(),
            prop_oneof![Just(Dissent::RenamePath), Just(Dissent::ChangeDigest), Just(Dissent::ChangeAlgorithm), Just(Dissent::AddAlgorithm), Just(Dissent::AddEntry), Just(Dissent::RemoveEntry), Just(Dissent::AddAliasEntry), Just(Dissent::TruncateDigest), Just(Dissent::MoveAcrossSides)],
            any::<u8>(),
            prop_oneof![4 => Just(false), 1 => Just(true)],
        )
            .prop_filter_map("a step can be made multi-party", |((world, owners), step, position, products_side, dissent, entry, twin)| {
                let n = world.layout.steps.len();
                let i = step as usize % n;
                let w = force_multiparty(&world, i)?;
                Some(Spec { world: w, owners, step: i as u8, position, products_side, dissent, entry, twin })
            })
            .boxed()
    }
    fn concurrent() -> bool {
        true
    }
    fn check(spec: &Spec, env: &mut Env) -> Outcome {
        let mut o = Outcome::new();
        let mut w = spec.world.clone();
        let s = w.layout.steps[spec.step as usize].clone();
        let mut idxs: Vec<usize> = w.links.iter().enumerate().filter(|(_, f)| f.step == s.name).map(|(i, _)| i).collect();
        idxs.sort_by_key(|i| key_id_str(&w.links[*i].filed_under));
        let pos = (spec.position as usize * idxs.len()) >> 8;
        let target = idxs[pos.min(idxs.len() - 1)];
        let mut real = false;
        match &mut w.links[target].body {
            Body::Link { link, .. } if matches!(spec.dissent, Dissent::MoveAcrossSides) => {
                if spec.products_side {
                    if let Some((k, v)) = link.products.iter().next().map(|(k, v)| (k.clone(), v.clone())) {
                        if !link.materials.contains_key(&k) {
                            link.products.remove(&k);
                            link.materials.insert(k, v);
                            real = true;
                        }
                    }
                } else if let Some((k, v)) = link.materials.iter().next_back().map(|(k, v)| (k.clone(), v.clone())) {
                    if !link.products.contains_key(&k) {
                        link.materials.remove(&k);
                        link.products.insert(k, v);
                        real = true;
                    }
                }
            }
            Body::Link { link, .. } => {
                let side = if spec.products_side { &mut link.products } else { &mut link.materials };
                let changed = dissenting(side, &spec.dissent, spec.entry);
                real = &changed != side;
                *side = changed;
            }
            Body::Sub { world: inner, .. } => {
                // the dissent is inside this functionary's own copy of the delegation: all links of the
                // inner first step (materials) or last step (products) report something else
                o.class("dissent-inside-delegation");
                let inner_step = if spec.products_side { inner.layout.steps.last() } else { inner.layout.steps.first() }.map(|s| s.name.clone());
                if let Some(name) = inner_step {
                    let mut first: Option<Artifacts> = None;
                    for f in inner.links.iter_mut().filter(|f| f.step == name) {
                        if let Body::Link { link, .. } = &mut f.body {
                            let side = if spec.products_side { &mut link.products } else { &mut link.materials };
                            let changed = first.clone().unwrap_or_else(|| dissenting(side, &spec.dissent, spec.entry));
                            if &changed != side {
                                real = true;
                            }
                            first = Some(changed.clone());
                            *side = changed;
                        }
                    }
                }
            }
            _ => {}
        }
        if spec.twin {
            if let Body::Link { .. } = &w.links[target].body {
                let k = w.links[target].filed_under.clone();
                if let Some(t) = twin_of(&k) {
                    if !w.layout.keys.iter().any(|x| key_id_str(x) == key_id_str(&t)) {
                        let mut f = w.links[target].clone();
                        f.filed_under = t.clone();
                        if let Body::Link { sigs, .. } = &mut f.body {
                            *sigs = vec![SigEntry::good(&t)];
                        }
                        // the link under the first id agrees again
                        w.links[target] = spec.world.links[target].clone();
                        w.links.push(f);
                        w.layout.keys.push(t.clone());
                        w.layout.steps[spec.step as usize].pubkeys.push(t);
                        o.class("dissent-under-second-id-of-one-key");
                    }
                }
            }
        }
        let now = now_secs();
        let dir = env.fresh_dir("c07");
        // history on disk: the directory first holds the agreeing links (verified once), then the
        // dissenting link replaces its file at the same path with the same modification time
        let (r, j, _) = run_world_after(&spec.world, &w, &spec.owners, &dir, now);
        let _ = std::fs::remove_dir_all(&dir);
        let Some(r) = r else { return o };
        o.class(format!("dissent:{:?}", spec.dissent));
        o.class(if spec.products_side { "side:products" } else { "side:materials" });
        o.class(format!("position:{}", if pos == 0 { "first" } else if pos + 1 >= idxs.len() { "last" } else { "middle" }));
        o.class(format!("t:{}/k:{}", s.threshold, idxs.len()));
        let disagree = j.violated.iter().any(|c| matches!(c, Cond::Agreement(_)));
        if disagree != real {
            panic!("harness: model disagreement {} vs constructed dissent {}", disagree, real);
        }
        if disagree {
            if r.is_ok() {
                o.fail(format!("C07/accepted/{}-{:?}", if spec.products_side { "products" } else { "materials" }, spec.dissent),
                    format!("in_toto_verify = Ok although link {} of step {} (threshold {}) reports different {}", pos, s.name, s.threshold, if spec.products_side { "products" } else { "materials" }),
                    "Err");
            }
            let cdir = env.fresh_dir("c07c");
            let (cr, _, _) = run_world(&spec.world, &spec.owners, &cdir, now);
            let _ = std::fs::remove_dir_all(&cdir);
            o.evals = 2;
            if matches!(cr, Some(Ok(_))) {
                o.nontrivial(format!("{}|{}|{:?}|{}|{}|{}", s.threshold, idxs.len(), spec.dissent, spec.products_side, pos, spec.world.layout.steps.len()));
            } else {
                o.class("control-not-ok");
            }
        }
        o
    }
    fn nontrivial_floor() -> f64 {
        0.5
    }
}
