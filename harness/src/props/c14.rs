//! C14 Untrusted bytes can make verification fail but never crash it.

use std::collections::HashMap;

use crate::fw::*;
use crate::gen::json::*;
use crate::gen::keys::*;
use crate::gen::meta::*;
use crate::gen::world::*;
use crate::model::cjson::J;
use crate::props::c01::now_secs;
use crate::props::c17::{valid_doc, Kind};
use crate::world::*;
use in_toto::crypto::{KeyId, PrivateKey, PublicKey, SignatureScheme, SignatureValue};
use in_toto::interchange::{DataInterchange, Json};
use in_toto::models::supply_chain_item::SupplyChainItem;
use in_toto::models::{LayoutMetadata, LinkMetadata, Metablock, MetablockBuilder, MetadataWrapper, PredicateWrapper, StatementWrapper};
use in_toto::verif_hooks as h;
use proptest::prelude::*;
use serde::{Deserialize, Serialize};
use std::str::FromStr;

pub struct C14;

#[derive(Clone, Copy, Debug, Serialize, Deserialize, PartialEq, Eq)]
pub enum Target {
    JsonAll,
    KeyIdPrefix,
    Spki,
    PemSpki,
    Pkcs8,
    Ed25519Private,
    RawPublic,
    SigHex,
    Pae,
    VerifyBlock,
    LinkDirFile,
}

#[derive(Clone, Debug, Serialize, Deserialize)]
pub enum Spec {
    /// bytes offered to one family of entry points
    Bytes { target: Target, bytes: Vec<u8>, mutations: u8, base: String },
    /// a valid world with adversarial but representable content
    Adversarial { world: World, owners: Vec<KeySpec>, twist: Twist },
    /// rule application with unusual paths / patterns / prefixes
    Rules { item: crate::props::c03::Spec },
    /// `run_command` (what `in_toto_run` and inspections execute) on a command that writes `stderr_kib` KiB to its
    /// standard error and `stdout_kib` KiB to its standard output (in that or the other order) and exits with `exit`
    Command { stderr_kib: u16, stdout_kib: u16, stderr_first: bool, exit: u8 },
}

/// (state, wchan) of every process whose ancestor chain contains `root` (root included).
fn descendants(root: u32) -> Vec<(u32, String, String)> {
    let mut procs: Vec<(u32, u32, String)> = vec![];
    if let Ok(rd) = std::fs::read_dir("/proc") {
        for e in rd.flatten() {
            let Some(pid) = e.file_name().to_str().and_then(|s| s.parse::<u32>().ok()) else { continue };
            let Ok(stat) = std::fs::read_to_string(format!("/proc/{}/stat", pid)) else { continue };
            // pid (comm) state ppid ...
            let Some(close) = stat.rfind(')') else { continue };
            let rest: Vec<&str> = stat[close + 1..].split_whitespace().collect();
            if rest.len() < 2 {
                continue;
            }
            procs.push((pid, rest[1].parse().unwrap_or(0), rest[0].to_string()));
        }
    }
    let mut set = vec![root];
    let mut grew = true;
    while grew {
        grew = false;
        for (pid, ppid, _) in &procs {
            if set.contains(ppid) && !set.contains(pid) {
                set.push(*pid);
                grew = true;
            }
        }
    }
    procs
        .iter()
        .filter(|(pid, _, _)| set.contains(pid))
        .map(|(pid, _, st)| (*pid, st.clone(), std::fs::read_to_string(format!("/proc/{}/wchan", pid)).unwrap_or_default()))
        .collect()
}

#[derive(Clone, Debug, Serialize, Deserialize, PartialEq, Eq)]
pub enum Twist {
    MultiByteKeyIdInLinkSignature(u8),
    MultiByteKeyIdInLayoutSignature(u8),
    WeirdStepName(u8),
    NonNormalisedPaths(u8),
    EmptyCollections,
    ExtremeNumbers(u8),
    ExtraFileInLinkDir(u8),
    LayoutAsLink,
    LinkAsLayout,
    /// a step delegated to a sub-layout that delegates the same step to the same functionary, whose link
    /// directory `<step>.<keyid8>` is a symbolic link (to `.`, to the link directory's absolute path, to `../<dir>`, to itself, to nothing)
    SelfDelegationThroughSymlink(u8),
    /// the first link file and the layout carry 33..300 further well-formed signature entries of unknown keys (junk
    /// values), placed after or before the genuine one
    ManySignatureEntries(u8),
}

const WEIRD_NAMES: &[&str] = &["[", "*", "?", "a[b", "]", "{a,b}", "ünï", "a b", "a/b", "../x", "", ".", "**", "[!", "\\", "a\nb", "\u{0}", "s.????????", "%s"];
const WEIRD_PATHS: &[&str] = &["./x", "a/../b", "/abs", "", ".", "..", "a//b", "a/", "../../etc/passwd", "x/./y", "\u{0}", "a\\b", "ünï/中", "*", "[", "a/b/../../c", "/", "//", "/.", "/tmp/..", "./", "a/.."];

fn multibyte_id(n: u8) -> String {
    match n % 4 {
        0 => format!("{}a", "€".repeat(21)),           // 63 + 1 bytes
        1 => "é".repeat(32),                            // 2-byte chars
        2 => "😀".repeat(16),                           // 4-byte chars
        _ => format!("abcdefg{}", "€".repeat(19)),      // char boundary problem exactly at byte 8
    }
}

pub const DICT: &[&str] = &[
    "\"signatures\"", "\"signed\"", "\"_type\"", "\"layout\"", "\"link\"", "\"keyid\"", "\"sig\"", "\"keys\"", "\"steps\"", "\"inspect\"", "\"expires\"", "\"pubkeys\"",
    "\"threshold\"", "\"expected_materials\"", "\"MATCH\"", "\"WITH\"", "\"IN\"", "\"FROM\"", "\"PRODUCTS\"", "\"CREATE\"", "\"DISALLOW\"", "\"materials\"", "\"products\"",
    "\"byproducts\"", "\"return-value\"", "\"environment\"", "\"command\"", "\"keyval\"", "\"public\"", "\"keytype\"", "\"scheme\"", "\"ed25519\"", "\"rsa\"", "\"ecdsa\"",
    "\"rsassa-pss-sha256\"", "\"sha256\"", "\"predicateType\"", "\"predicate\"", "\"subject\"", "\"buildStartedOn\"", "null", "true", "[]", "{}", "-1", "0", "4294967295",
    "4294967296", "18446744073709551615", "18446744073709551616", "-9223372036854775809", "1e400", "1.5", "\"\"", "[[[[[[[[", "{\"a\":{\"a\":{\"a\":", "\\u0000", "\\ud800",
    "DSSEv1 ", "-----BEGIN PUBLIC KEY-----", "\"9999-12-31T23:59:60+23:59\"", "\"0000-01-01T00:00:00Z\"",
];

#[derive(Clone, Debug)]
enum Mut {
    Flip(prop::sample::Index, u8),
    Truncate(prop::sample::Index),
    Insert(prop::sample::Index, usize),
    DeleteRange(prop::sample::Index, u8),
    DupRange(prop::sample::Index, u8),
    SetByte(prop::sample::Index, u8),
    Splice(prop::sample::Index, prop::sample::Index),
}

fn mutation() -> BoxedStrategy<Mut> {
    prop_oneof![
        3 => (any::<prop::sample::Index>(), 0u8..8).prop_map(|(i, b)| Mut::Flip(i, b)),
        2 => any::<prop::sample::Index>().prop_map(Mut::Truncate),
        4 => (any::<prop::sample::Index>(), 0..DICT.len()).prop_map(|(i, d)| Mut::Insert(i, d)),
        2 => (any::<prop::sample::Index>(), 1u8..40).prop_map(|(i, n)| Mut::DeleteRange(i, n)),
        1 => (any::<prop::sample::Index>(), 1u8..40).prop_map(|(i, n)| Mut::DupRange(i, n)),
        2 => (any::<prop::sample::Index>(), any::<u8>()).prop_map(|(i, b)| Mut::SetByte(i, b)),
        1 => (any::<prop::sample::Index>(), any::<prop::sample::Index>()).prop_map(|(a, b)| Mut::Splice(a, b)),
    ]
    .boxed()
}

fn apply_mut(mut b: Vec<u8>, m: &Mut) -> Vec<u8> {
    match m {
        Mut::Flip(i, bit) => {
            if !b.is_empty() {
                let k = i.index(b.len());
                b[k] ^= 1 << bit;
            }
        }
        Mut::Truncate(i) => {
            let k = i.index(b.len() + 1);
            b.truncate(k);
        }
        Mut::Insert(i, d) => {
            let k = i.index(b.len() + 1);
            let tok = DICT[*d].as_bytes().to_vec();
            b.splice(k..k, tok);
        }
        Mut::DeleteRange(i, n) => {
            if !b.is_empty() {
                let k = i.index(b.len());
                let e = (k + *n as usize).min(b.len());
                b.drain(k..e);
            }
        }
        Mut::DupRange(i, n) => {
            if !b.is_empty() {
                let k = i.index(b.len());
                let e = (k + *n as usize).min(b.len());
                let seg = b[k..e].to_vec();
                b.splice(k..k, seg);
            }
        }
        Mut::SetByte(i, v) => {
            if !b.is_empty() {
                let k = i.index(b.len());
                b[k] = *v;
            }
        }
        Mut::Splice(a, c) => {
            if b.len() > 2 {
                let x = a.index(b.len());
                let y = c.index(b.len());
                let (lo, hi) = if x < y { (x, y) } else { (y, x) };
                let seg = b[lo..hi].to_vec();
                let mut head = b[..lo].to_vec();
                head.extend_from_slice(&b[hi..]);
                head.extend_from_slice(&seg);
                b = head;
            }
        }
    }
    b
}

fn seed_file(name: &str) -> Vec<u8> {
    std::fs::read(crate::verif_root().join("corpus").join(name)).unwrap_or_default()
}

const JSON_SEEDS: &[&str] = &["seeds/root.layout.json", "seeds/demo.layout.json", "seeds/demo.link.json", "seeds/clone.776a00e2.link", "seeds/package.2f89b927.link"];
const SPKI_SEEDS: &[&str] = &["spki/ed25519-openssl-0.spki.der", "spki/ecdsa-0.spki.der", "spki/rsa2048-0.spki.der", "spki/rsa4096-0.spki.der"];
const PK8_SEEDS: &[&str] = &["keys/ecdsa-0.pk8.der", "keys/rsa2048-0.pk8.der", "keys/rsa3072-0.pk8.der"];

fn base_bytes() -> BoxedStrategy<(Target, Vec<u8>, String)> {
    let json_gen = (valid_doc(), entropy()).prop_map(|((kind, v), e)| {
        let t = if matches!(kind, Kind::Block) { Target::VerifyBlock } else { Target::JsonAll };
        (t, spelling(&J::from_value(&v), &e).into_bytes(), format!("generated:{:?}", kind))
    });
    let json_seed = (0..JSON_SEEDS.len(), prop_oneof![Just(Target::JsonAll), Just(Target::VerifyBlock), Just(Target::LinkDirFile)]).prop_map(|(i, t)| (t, seed_file(JSON_SEEDS[i]), JSON_SEEDS[i].to_string()));
    let linkdir = (link_spec(true), ed_key()).prop_map(|(l, k)| {
        let (text, _) = signed_text(&MetadataWrapper::Link(l.to_lib()), &[SigEntry::good(&k)], &None);
        (Target::LinkDirFile, text.into_bytes(), "generated:link-file".to_string())
    });
    let spki = (0..SPKI_SEEDS.len(), prop_oneof![Just(Target::Spki), Just(Target::PemSpki)]).prop_map(|(i, t)| {
        let der = seed_file(SPKI_SEEDS[i]);
        let bytes = if t == Target::PemSpki { crate::model::keyid::pem_public(&der).into_bytes() } else { der };
        (t, bytes, SPKI_SEEDS[i].to_string())
    });
    let pk8 = prop_oneof![
        (0..PK8_SEEDS.len()).prop_map(|i| (Target::Pkcs8, seed_file(PK8_SEEDS[i]), PK8_SEEDS[i].to_string())),
        any::<u8>().prop_map(|s| (Target::Pkcs8, ed_pkcs8(s), "ed25519-pkcs8".to_string())),
    ];
    let raw = prop_oneof![
        any::<u8>().prop_map(|s| (Target::RawPublic, ed_public(s), "ed25519-public".to_string())),
        (0..ECDSA_POOL).prop_map(|i| (Target::RawPublic, crate::model::keyid::ec_point(i), "ecdsa-point".to_string())),
        any::<u8>().prop_map(|s| {
            let mut v = ed_seed_bytes(s).to_vec();
            v.extend(ed_public(s));
            (Target::Ed25519Private, v, "ed25519-keypair".to_string())
        }),
    ];
    let misc = prop_oneof![
        "[0-9a-fA-F]{0,40}".prop_map(|s| (Target::SigHex, s.into_bytes(), "hex".to_string())),
        (0u8..4).prop_map(|n| (Target::KeyIdPrefix, multibyte_id(n).into_bytes(), "multibyte-keyid".to_string())),
        "[0-9a-f]{64}".prop_map(|s| (Target::KeyIdPrefix, s.into_bytes(), "hex-keyid".to_string())),
        (crate::gen::text::text(10), proptest::collection::vec(any::<u8>(), 0..30)).prop_map(|(t, p)| (Target::Pae, crate::props::c20::reference_pae(&t, &p), "pae".to_string())),
    ];
    prop_oneof![6 => json_gen, 3 => json_seed, 2 => linkdir, 2 => spki, 2 => pk8, 1 => raw, 2 => misc].boxed()
}

fn schemes() -> Vec<SignatureScheme> {
    vec![SignatureScheme::Ed25519, SignatureScheme::RsaSsaPssSha256, SignatureScheme::RsaSsaPssSha512, SignatureScheme::EcdsaP256Sha256]
}

fn json_looks_valid(b: &[u8]) -> bool {
    serde_json::from_slice::<serde_json::Value>(b).is_ok()
}

/// Offer bytes to the entry points of `target`. Every call is wrapped by the caller in `guarded`.
fn offer(target: Target, bytes: &[u8], env: &mut Env) -> (u64, bool) {
    let mut calls = 0u64;
    let mut semantic = false;
    match target {
        Target::JsonAll | Target::VerifyBlock => {
            semantic = json_looks_valid(bytes);
            let _ = serde_json::from_slice::<Metablock>(bytes).map(|b| {
                for s in &b.signatures {
                    let _ = s.key_id().prefix();
                }
                let mut keys: Vec<PublicKey> = vec![public(&KeySpec::Ed { seed: 1, pkcs8: true })];
                if let MetadataWrapper::Layout(l) = &b.metadata {
                    keys.extend(l.keys.values().cloned());
                }
                for t in [0u32, 1, 2, u32::MAX] {
                    let _ = b.verify(t, keys.iter());
                }
                let _ = serde_json::to_string(&b);
                let _ = b.metadata.to_bytes();
            });
            let _ = serde_json::from_slice::<LayoutMetadata>(bytes).map(|l| serde_json::to_string(&l));
            let _ = serde_json::from_slice::<LinkMetadata>(bytes).map(|l| serde_json::to_string(&l));
            let _ = MetadataWrapper::try_from_bytes(bytes).map(|m| m.to_bytes());
            let _ = MetablockBuilder::from_raw_metadata(bytes).map(|b| b.build());
            let _ = serde_json::from_slice::<PublicKey>(bytes).map(|k| (k.as_spki(), serde_json::to_string(&k)));
            let _ = serde_json::from_slice::<in_toto::crypto::Signature>(bytes);
            let _ = serde_json::from_slice::<in_toto::models::rule::ArtifactRule>(bytes);
            let _ = serde_json::from_slice::<StatementWrapper>(bytes).map(|s| s.into_trait().to_bytes());
            let _ = serde_json::from_slice::<PredicateWrapper>(bytes).map(|s| s.into_trait().to_bytes());
            let _ = serde_json::from_slice::<h::EnvelopeFile>(bytes).map(|e| e.to_bytes());
            let _ = h::EnvelopeFile::from_bytes(bytes);
            let _ = serde_json::from_slice::<KeyId>(bytes).map(|k| k.prefix());
            let _ = Json::from_slice::<serde_json::Value>(bytes).map(|v| Json::canonicalize(&v));
            let _ = Json::from_reader::<_, serde_json::Value>(bytes);
            calls += 16;
        }
        Target::KeyIdPrefix => {
            if let Ok(s) = std::str::from_utf8(bytes) {
                semantic = s.len() == 64;
                let _ = KeyId::from_str(s).map(|k| k.prefix());
            }
            calls += 1;
        }
        Target::Spki => {
            semantic = bytes.first() == Some(&0x30);
            for s in schemes() {
                let _ = PublicKey::from_spki(bytes, s).map(|k| (k.as_spki(), serde_json::to_string(&k), k.key_id().prefix()));
                calls += 1;
            }
        }
        Target::PemSpki => {
            if let Ok(s) = std::str::from_utf8(bytes) {
                semantic = s.starts_with("-----BEGIN");
                for sc in schemes() {
                    let _ = PublicKey::from_pem_spki(s, sc).map(|k| k.as_spki());
                    calls += 1;
                }
            }
        }
        Target::Pkcs8 => {
            semantic = bytes.first() == Some(&0x30);
            for s in schemes() {
                let _ = PrivateKey::from_pkcs8(bytes, s).map(|k| k.sign(b"msg"));
                calls += 1;
            }
        }
        Target::Ed25519Private => {
            semantic = bytes.len() == 64;
            let _ = PrivateKey::from_ed25519(bytes).map(|k| k.sign(b"msg"));
            calls += 1;
        }
        Target::RawPublic => {
            semantic = bytes.len() == 32 || bytes.len() == 65;
            let sig: in_toto::crypto::Signature = serde_json::from_value(serde_json::json!({"keyid": "0".repeat(64), "sig": "00"})).unwrap();
            let _ = PublicKey::from_ed25519(bytes.to_vec()).map(|k| (k.verify(b"m", &sig), k.as_spki(), serde_json::to_string(&k)));
            let _ = PublicKey::from_ecdsa(bytes.to_vec()).map(|k| (k.verify(b"m", &sig), k.as_spki(), serde_json::to_string(&k)));
            calls += 2;
        }
        Target::SigHex => {
            if let Ok(s) = std::str::from_utf8(bytes) {
                semantic = s.len() % 2 == 0;
                let _ = SignatureValue::from_hex(s);
                let _ = serde_json::from_value::<in_toto::crypto::HashValue>(serde_json::json!(s));
            }
            calls += 2;
        }
        Target::Pae => {
            semantic = bytes.starts_with(b"DSSEv1 ");
            let _ = h::pae_unpack(bytes);
            let _ = h::pae_try_unpack(bytes);
            calls += 2;
        }
        Target::LinkDirFile => {
            semantic = json_looks_valid(bytes);
            // a layout with one step; the bytes are the only evidence file of the step
            let owner = KeySpec::Ed { seed: 80, pkcs8: true };
            let f = KeySpec::Ed { seed: 81, pkcs8: true };
            let layout = LayoutSpec {
                expires: 4_000_000_000,
                readme: String::new(),
                keys: vec![f.clone()],
                steps: vec![StepSpec { name: "step".into(), threshold: 1, pubkeys: vec![f.clone()], expected_command: vec![], expected_materials: vec![RuleSpec::Allow("*".into())], expected_products: vec![RuleSpec::Match { pattern: "*".into(), in_src: None, products: false, in_dst: None, from: "step".into() }] }],
                inspect: vec![],
            };
            let w = World { layout, sigs: vec![SigEntry::good(&owner)], tamper: None, links: vec![] };
            let dir = env.fresh_dir("c14");
            let info = write_world(&w, &dir);
            std::fs::write(dir.join(format!("step.{}.link", prefix8(&f))), bytes).unwrap();
            std::fs::write(dir.join("step.zzzzzzzz.link"), bytes).unwrap();
            // the eight "characters" of the key-id part need not be eight bytes
            for name in ["step.€1234567.link", "step.1234567é.link", "step.😀😀😀😀😀😀😀😀.link", "step.ééééaaaa.link"] {
                let _ = std::fs::write(dir.join(name), bytes);
            }
            let _ = run_verify(&info, &own_ids(&[owner]), &dir, None);
            let _ = std::fs::remove_dir_all(&dir);
            calls += 1;
        }
    }
    (calls, semantic)
}

fn twist_strategy() -> BoxedStrategy<Twist> {
    prop_oneof![
        2 => any::<u8>().prop_map(Twist::MultiByteKeyIdInLinkSignature),
        1 => any::<u8>().prop_map(Twist::MultiByteKeyIdInLayoutSignature),
        3 => any::<u8>().prop_map(Twist::WeirdStepName),
        3 => any::<u8>().prop_map(Twist::NonNormalisedPaths),
        1 => Just(Twist::EmptyCollections),
        2 => any::<u8>().prop_map(Twist::ExtremeNumbers),
        2 => any::<u8>().prop_map(Twist::ExtraFileInLinkDir),
        1 => Just(Twist::LayoutAsLink),
        1 => Just(Twist::LinkAsLayout),
        2 => any::<u8>().prop_map(Twist::SelfDelegationThroughSymlink),
        2 => any::<u8>().prop_map(Twist::ManySignatureEntries),
    ]
    .boxed()
}

fn adversarial_rules() -> BoxedStrategy<crate::props::c03::Spec> {
    let p = prop_oneof![
        3 => (0..WEIRD_PATHS.len()).prop_map(|i| WEIRD_PATHS[i].to_string()),
        2 => relpath(),
        // (capped: glob matching with several wildcards is quadratic in the path length, a 200 KiB path costs minutes)
        2 => crate::gen::text::text(6).prop_map(|s| s.chars().take(2048).collect::<String>()),
        1 => (0..crate::props::c03::UNINTERPRETABLE.len()).prop_map(|i| crate::props::c03::UNINTERPRETABLE[i].to_string()),
    ];
    let pre = proptest::option::weighted(0.5, prop_oneof![Just("a/".to_string()), Just("".to_string()), Just("/".to_string()), Just("a/../b".to_string()), Just("./".to_string()), Just("ünï".to_string()), prefix()]);
    let rule = prop_oneof![
        p.clone().prop_map(RuleSpec::Create), p.clone().prop_map(RuleSpec::Delete), p.clone().prop_map(RuleSpec::Modify), p.clone().prop_map(RuleSpec::Allow),
        p.clone().prop_map(RuleSpec::Require), p.clone().prop_map(RuleSpec::Disallow),
        (p.clone(), pre.clone(), any::<bool>(), pre, prop_oneof![Just("item".to_string()), Just("s1".to_string()), Just("nope".to_string())])
            .prop_map(|(pattern, in_src, products, in_dst, from)| RuleSpec::Match { pattern, in_src, products, in_dst, from }),
    ];
    // digest sets with one or two algorithms, or (representable in parsed links) none at all
    let dg = prop_oneof![5 => digests(true), 2 => Just(Digests::new())];
    let arts = proptest::collection::btree_map(p.clone(), dg.clone(), 0..4);
    // half of the cases: the four artifact maps draw their paths from one small pool, so that MATCH rules find
    // the same path on both sides (with equal, different or empty digest sets)
    let pooled = (proptest::collection::vec(p, 1..4), proptest::collection::vec((any::<u8>(), dg), 4..12)).prop_map(|(pool, picks)| {
        let mut maps: Vec<Artifacts> = vec![Artifacts::new(), Artifacts::new(), Artifacts::new(), Artifacts::new()];
        for (i, (sel, d)) in picks.into_iter().enumerate() {
            maps[i % 4].insert(pool[sel as usize % pool.len()].clone(), d);
        }
        (maps[0].clone(), maps[1].clone(), maps[2].clone(), maps[3].clone())
    });
    let four = prop_oneof![(arts.clone(), arts.clone(), arts.clone(), arts).boxed(), pooled.boxed()];
    (proptest::collection::vec(rule.clone(), 0..4), proptest::collection::vec(rule, 0..4), four)
        .prop_map(|(expected_materials, expected_products, (materials, products, m1, p1))| crate::props::c03::Spec {
            inspection: false,
            name: "item".into(),
            expected_materials,
            expected_products,
            materials,
            products,
            others: vec![("s1".into(), m1, p1)],
        })
        .boxed()
}

impl Property for C14 {
    type Spec = Spec;
    fn id() -> &'static str {
        "C14"
    }
    fn rule() -> String {
        "Generated: (a) structured adversarial documents: valid worlds twisted with non-ASCII 64-byte key ids (2-, 3-, 4-byte characters, \
         char boundary at byte 8) in link and layout signatures, step names with glob metacharacters / path separators / control characters / \
         empty, non-normalised artifact paths (./x, a/../b, /abs, empty, ..) under MATCH/CREATE/.. rules, empty collections, thresholds and \
         return values at and beyond u32/i32/u64, extra files in the link directory (garbage, deep nesting, other metadata type), 33-300 further signature entries of unknown keys on a link file and on the layout, a step delegated to a sub-layout that delegates the same step to the same functionary while its link directory is a symbolic link back to the link directory (., absolute, ../dir, itself, dangling), run through \
         in_toto_verify; run_command (what in_toto_run and inspections execute) on commands writing 0-1024 KiB to stderr and 0-256 KiB to stdout in either order, called in a process of its own: if that process does not finish, the check looks at what the processes are blocked on (library in a pipe read, command in a pipe write = cannot make progress) instead of trusting a time limit; adversarial paths/patterns/prefixes and artifacts with empty digest sets through rule application; (b) mutational: bit flips, truncations, dictionary \
         token insertion, range deletion/duplication, byte overwrite, splices over generated valid documents of every type and over the \
         repository's Python-made fixtures, OpenSSL-made SPKI/PKCS#8 files, PEM, hex, key ids and PAE encodings, offered to every parser, key \
         importer (from_spki, from_pem_spki, from_pkcs8, from_ed25519, from_ecdsa, hex decoders, KeyId::prefix, try_from_bytes, \
         from_raw_metadata, Json::from_slice/from_reader/canonicalize, statement/predicate wrappers, envelope, pae_unpack), to block \
         verification and, as a file of the link directory, to in_toto_verify. Oracle: every call returns under catch_unwind; a panic, an \
         abnormal worker death (signal: stack overflow, abort) is the failure. Non-trivial: the input passed the syntax layer (valid JSON / \
         DER-like / right length), or is a single mutation of a valid input, or is a structured case; distinct by exact input."
            .into()
    }
    fn assumptions() -> Vec<String> {
        vec!["non-termination can only show as a driver time-out (exit 2, inconclusive)".into(), "panics are attributed to the library by source location".into()]
    }
    fn cases(tier: Tier) -> u64 {
        tier.pick(60_000, 3_000_000)
    }
    fn risky() -> bool {
        true
    }
    fn strategy(_tier: Tier) -> BoxedStrategy<Spec> {
        let bytes = (base_bytes(), proptest::collection::vec(mutation(), 0..5)).prop_map(|((target, base, name), muts)| {
            let mut b = base;
            for m in &muts {
                b = apply_mut(b, m);
            }
            Spec::Bytes { target, bytes: b, mutations: muts.len() as u8, base: name }
        });
        let adv = (valid_world(Cfg { min_steps: 1, max_steps: 2, max_owners: 1, ..Cfg::basic() }), twist_strategy()).prop_map(|((world, owners), twist)| Spec::Adversarial { world, owners, twist });
        let command = (prop_oneof![Just(0u16), Just(1), Just(63), Just(64), Just(65), Just(100), Just(256), Just(1024)], prop_oneof![Just(0u16), Just(1), Just(64), Just(65), Just(256)], any::<bool>(), prop_oneof![3 => Just(0u8), 1 => any::<u8>()])
            .prop_map(|(stderr_kib, stdout_kib, stderr_first, exit)| Spec::Command { stderr_kib, stdout_kib, stderr_first, exit });
        prop_oneof![360 => bytes, 60 => adv, 60 => adversarial_rules().prop_map(|item| Spec::Rules { item }), 2 => command].boxed()
    }
    fn check(spec: &Spec, env: &mut Env) -> Outcome {
        let mut o = Outcome::new();
        match spec {
            Spec::Bytes { target, bytes, mutations, base } => {
                o.class(format!("target:{:?}", target));
                let _ = base;
                let r = guarded(|| offer(*target, bytes, env));
                match r {
                    Ok((calls, semantic)) => {
                        o.evals = calls.max(1);
                        if semantic {
                            o.class("reached-semantic-layer");
                        }
                        if semantic || *mutations <= 1 {
                            o.nontrivial(format!("{:?}|{}", target, crate::model::keyid::hex(bytes)));
                        }
                    }
                    Err(pi) => {
                        if !pi.in_library() {
                            panic!("harness panic {}:{} {}", pi.file, pi.line, pi.message);
                        }
                        o.nontrivial(format!("{:?}|{}", target, crate::model::keyid::hex(bytes)));
                        o.fail(format!("C14/panic/{}/{}", pi.site(), pi.message_class()), format!("panic at {}:{}: {} (target {:?})", pi.file, pi.line, pi.message, target), "a value or an error");
                    }
                }
            }
            Spec::Command { stderr_kib, stdout_kib, stderr_first, exit } => {
                o.class("run_command");
                o.class(format!("run_command:stderr-{}KiB", if *stderr_kib > 64 { ">64" } else { "<=64" }));
                o.nontrivial(format!("cmd|{}|{}|{}|{}", stderr_kib, stdout_kib, stderr_first, exit));
                let e = format!("head -c {} /dev/zero | tr '\\0' e 1>&2", *stderr_kib as usize * 1024);
                let so = format!("head -c {} /dev/zero | tr '\\0' o", *stdout_kib as usize * 1024);
                let script = if *stderr_first { format!("{}; {}; exit {}", e, so, exit) } else { format!("{}; {}; exit {}", so, e, exit) };
                let dir = env.fresh_dir("c14cmd");
                let out = dir.join("result.json");
                let exe = std::env::current_exe().expect("exe");
                let mut child = std::process::Command::new(&exe)
                    .arg("run-command")
                    .arg(&out)
                    .arg(&script)
                    .stdin(std::process::Stdio::null())
                    .stdout(std::process::Stdio::null())
                    .stderr(std::process::Stdio::null())
                    .spawn()
                    .expect("spawn run-command");
                let start = std::time::Instant::now();
                let mut verdict: Option<String> = None;
                loop {
                    match child.try_wait() {
                        Ok(Some(_)) => break,
                        Ok(None) => {}
                        Err(e) => panic!("harness: try_wait: {}", e),
                    }
                    let waited = start.elapsed().as_secs_f64();
                    if waited > 10.0 {
                        // not a time-out verdict: look at what the processes are blocked on. The library blocked in a pipe
                        // read while the command it started is blocked in a pipe write cannot make progress any more.
                        let ps = descendants(child.id());
                        let lib_reads = ps.iter().any(|(pid, st, w)| *pid == child.id() && st == "S" && w.contains("pipe_read"));
                        let cmd_writes = ps.iter().any(|(pid, st, w)| *pid != child.id() && st == "S" && w.contains("pipe_write"));
                        if lib_reads && cmd_writes {
                            // confirm the state is stable
                            std::thread::sleep(std::time::Duration::from_millis(500));
                            let ps2 = descendants(child.id());
                            if ps2.iter().map(|(p, s, w)| (*p, s.clone(), w.clone())).collect::<Vec<_>>() == ps {
                                verdict = Some(format!("after {:.0} s: library process blocked in a pipe read while its command is blocked in a pipe write ({:?})", waited, ps));
                                break;
                            }
                        }
                    }
                    if waited > 180.0 {
                        for (pid, _, _) in descendants(child.id()) {
                            unsafe { libc::kill(pid as i32, libc::SIGKILL) };
                        }
                        let _ = child.wait();
                        panic!("harness: run-command helper did not finish within 180 s and no pipe deadlock was seen");
                    }
                    std::thread::sleep(std::time::Duration::from_millis(20));
                }
                if let Some(v) = verdict {
                    for (pid, _, _) in descendants(child.id()) {
                        unsafe { libc::kill(pid as i32, libc::SIGKILL) };
                    }
                    let _ = child.wait();
                    o.fail("C14/non-termination/run_command-pipe-deadlock", v, "run_command returns a value or an error");
                } else {
                    let text = std::fs::read_to_string(&out).unwrap_or_default();
                    let r: serde_json::Value = serde_json::from_str(&text).unwrap_or(serde_json::Value::Null);
                    if let Some(p) = r["panic"].as_str() {
                        o.fail("C14/panic/run_command", p.to_string(), "a value or an error");
                    } else if r.is_null() {
                        o.fail("C14/abnormal-end/run_command", format!("the process calling run_command ended without a result (script {:?})", script), "a value or an error");
                    }
                }
                let _ = std::fs::remove_dir_all(&dir);
            }
            Spec::Rules { item } => {
                o.class("rules");
                o.nontrivial(format!("{:?}", item));
                let r = guarded(|| crate::props::c03::evaluate(item));
                if let Err(pi) = r {
                    if !pi.in_library() && pi.message.starts_with("vtp") {
                        // the library's path constructor returned an error for a generated path: an error, not a panic
                        o.class("path-constructor-refused");
                        return o;
                    }
                    if !pi.in_library() {
                        panic!("harness panic {}:{} {}", pi.file, pi.line, pi.message);
                    }
                    o.fail(format!("C14/panic/{}/{}", pi.site(), pi.message_class()), format!("rule application panicked at {}:{}: {}", pi.file, pi.line, pi.message), "Ok or Err");
                }
            }
            Spec::Adversarial { world, owners, twist } => {
                o.class(format!("twist:{}", format!("{:?}", twist).split('(').next().unwrap_or("")));
                o.nontrivial(format!("{:?}|{:?}", twist, world.layout.steps.len()));
                let mut w = world.clone();
                let dir = env.fresh_dir("c14a");
                let mut post: Vec<(String, String)> = vec![]; // extra files
                let mut layout_text_edit: Option<(String, String)> = None;
                match twist {
                    Twist::WeirdStepName(n) => {
                        let new = WEIRD_NAMES[*n as usize % WEIRD_NAMES.len()].to_string();
                        let old = w.layout.steps[0].name.clone();
                        w.layout.steps[0].name = new.clone();
                        for f in w.links.iter_mut().filter(|f| f.step == old) {
                            f.step = new.clone();
                            if let Body::Link { link, .. } = &mut f.body {
                                link.name = new.clone();
                            }
                        }
                    }
                    Twist::NonNormalisedPaths(n) => {
                        let p = WEIRD_PATHS[*n as usize % WEIRD_PATHS.len()].to_string();
                        let d: Digests = [("sha256".to_string(), DIGEST_POOL_256[0].to_string())].into();
                        let d2: Digests = [("sha256".to_string(), DIGEST_POOL_256[1].to_string())].into();
                        let sname = w.layout.steps[0].name.clone();
                        for f in w.links.iter_mut().filter(|f| f.step == sname) {
                            if let Body::Link { link, .. } = &mut f.body {
                                link.materials.insert(p.clone(), d.clone());
                                link.products.insert(p.clone(), d2.clone());
                                link.products.insert(format!("{}/.", p), d.clone());
                            }
                        }
                        w.layout.steps[0].expected_products = vec![
                            // (an explicit but empty source prefix for every other round through the path list)
                            RuleSpec::Match { pattern: "*".into(), in_src: if (*n as usize / WEIRD_PATHS.len()) % 2 == 1 { Some(String::new()) } else { None }, products: false, in_dst: None, from: sname.clone() },
                            RuleSpec::Modify("*".into()),
                            RuleSpec::Match { pattern: "*".into(), in_src: Some(p.clone()), products: false, in_dst: Some(p.clone()), from: sname.clone() },
                            RuleSpec::Create(p.clone()),
                            RuleSpec::Require(p.clone()),
                        ];
                        w.layout.steps[0].expected_materials = vec![RuleSpec::Delete(p.clone()), RuleSpec::Match { pattern: p.clone(), in_src: None, products: true, in_dst: None, from: sname }];
                    }
                    Twist::EmptyCollections => {
                        w.layout.steps[0].pubkeys.clear();
                        w.layout.keys.clear();
                        w.layout.steps[0].expected_materials.clear();
                    }
                    Twist::ExtremeNumbers(n) => {
                        w.layout.steps[0].threshold = [0u32, u32::MAX, u32::MAX - 1, 1 << 31][*n as usize % 4];
                        for f in w.links.iter_mut() {
                            if let Body::Link { link, .. } = &mut f.body {
                                link.byproducts.return_value = Some([i32::MIN, i32::MAX, -1, 256][*n as usize % 4]);
                            }
                        }
                    }
                    Twist::SelfDelegationThroughSymlink(_) => {
                        let sname = w.layout.steps[0].name.clone();
                        if let Some(k) = w.layout.steps[0].pubkeys.first().cloned() {
                            w.layout.steps[0].threshold = 1;
                            w.links.retain(|f| f.step != sname);
                            let inner = World {
                                layout: LayoutSpec {
                                    expires: 4_000_000_000,
                                    readme: String::new(),
                                    keys: vec![k.clone()],
                                    steps: vec![StepSpec { name: sname.clone(), threshold: 1, pubkeys: vec![k.clone()], expected_command: vec![], expected_materials: vec![], expected_products: vec![] }],
                                    inspect: vec![],
                                },
                                sigs: vec![SigEntry::good(&k)],
                                tamper: None,
                                links: vec![],
                            };
                            w.links.push(LinkFile { step: sname, filed_under: k, name_field: None, symlink_store: false, body: Body::Sub { world: Box::new(inner), placement: Placement::Proper } });
                        }
                    }
                    Twist::LayoutAsLink => {
                        // a layout where a link is expected, signed by the functionary
                        if let Some(f) = w.links.first_mut() {
                            let k = f.filed_under.clone();
                            let inner = World { layout: LayoutSpec { expires: 4_000_000_000, readme: String::new(), keys: vec![], steps: vec![], inspect: vec![] }, sigs: vec![SigEntry::good(&k)], tamper: None, links: vec![] };
                            f.body = Body::Sub { world: Box::new(inner), placement: Placement::Proper };
                        }
                    }
                    _ => {}
                }
                let mut info = write_world(&w, &dir);
                match twist {
                    Twist::MultiByteKeyIdInLinkSignature(n) => {
                        // rewrite the key id of the first link file's signature
                        if let Some(f) = w.links.first() {
                            let path = dir.join(format!("{}.{}.link", f.step, prefix8(&f.filed_under)));
                            if let Ok(t) = std::fs::read_to_string(&path) {
                                let id = key_id_str(&f.filed_under);
                                std::fs::write(&path, t.replace(&id, &multibyte_id(*n))).unwrap();
                            }
                        }
                    }
                    Twist::MultiByteKeyIdInLayoutSignature(n) => {
                        let id = key_id_str(&owners[0]);
                        layout_text_edit = Some((id, multibyte_id(*n)));
                    }
                    Twist::ExtraFileInLinkDir(n) => {
                        let sname = w.layout.steps[0].name.clone();
                        let body = match n % 6 {
                            0 => String::new(),
                            1 => "{}".to_string(),
                            2 => format!("{}1{}", "[".repeat(200), "]".repeat(200)),
                            3 => format!("{{\"signatures\":[{{\"keyid\":\"{}\",\"sig\":\"00\"}}],\"signed\":{{\"_type\":\"link\",\"name\":\"x\",\"materials\":{{}},\"products\":{{}},\"byproducts\":{{}},\"command\":[],\"environment\":null}}}}", multibyte_id(*n)),
                            4 => "{\"signatures\":[],\"signed\":{\"_type\":\"link\",\"name\":\"x\",\"materials\":{},\"products\":{},\"byproducts\":{\"return-value\":99999999999},\"command\":[],\"environment\":null}}".to_string(),
                            _ => info.layout_text.clone(),
                        };
                        let genuine = w.links.iter().find(|f| f.step == sname).and_then(|f| std::fs::read_to_string(dir.join(format!("{}.{}.link", f.step, prefix8(&f.filed_under)))).ok());
                        let weird = ["deadbeef", "€1234567", "1234567é", "😀😀😀😀😀😀😀😀", "ééééaaaa", "abc€defg", "????????", "a b c d "][(*n as usize / 6) % 8];
                        let body = if n % 2 == 0 { genuine.unwrap_or(body) } else { body };
                        post.push((format!("{}.{}.link", sname, weird), body));
                    }
                    Twist::SelfDelegationThroughSymlink(n) => {
                        if let Some(f) = w.links.iter().find(|f| matches!(f.body, Body::Sub { .. })) {
                            let name = format!("{}.{}", f.step, prefix8(&f.filed_under));
                            let sub = dir.join(&name);
                            if !name.contains('/') && !name.contains('\0') && sub.is_dir() {
                                let _ = std::fs::remove_dir_all(&sub);
                                let target = match n % 5 {
                                    0 => ".".to_string(),
                                    1 => dir.display().to_string(),
                                    2 => format!("../{}", dir.file_name().and_then(|x| x.to_str()).unwrap_or(".")),
                                    3 => name.clone(),
                                    _ => "nowhere".to_string(),
                                };
                                let _ = std::os::unix::fs::symlink(target, &sub);
                            }
                        }
                    }
                    Twist::ManySignatureEntries(n) => {
                        let count = [33usize, 34, 64, 65, 130, 300][*n as usize % 6];
                        let extra: Vec<serde_json::Value> = (0..count).map(|i| serde_json::json!({"keyid": format!("{:064x}", (i as u128 + 1) * 0x9e3779b97f4a7c15u128), "sig": "00ff"})).collect();
                        let splice = |text: &str, before: bool| -> Option<String> {
                            let mut v: serde_json::Value = serde_json::from_str(text).ok()?;
                            let sigs = v.get_mut("signatures")?.as_array_mut()?;
                            if before {
                                let mut all = extra.clone();
                                all.extend(sigs.drain(..));
                                *sigs = all;
                            } else {
                                sigs.extend(extra.clone());
                            }
                            Some(v.to_string())
                        };
                        if let Some(f) = w.links.first() {
                            let path = dir.join(format!("{}.{}.link", f.step, prefix8(&f.filed_under)));
                            if let Some(t) = std::fs::read_to_string(&path).ok().and_then(|t| splice(&t, n % 2 == 1)) {
                                let _ = std::fs::write(&path, t);
                            }
                        }
                        if n % 3 == 0 {
                            if let Some(t) = splice(&info.layout_text, n % 2 == 0) {
                                info.layout_text = t;
                            }
                        }
                    }
                    Twist::LinkAsLayout => {
                        // hand a link block to in_toto_verify as if it were the layout
                        if let Some(f) = w.links.first() {
                            let path = dir.join(format!("{}.{}.link", f.step, prefix8(&f.filed_under)));
                            if let Ok(t) = std::fs::read_to_string(&path) {
                                info.layout_text = t;
                            }
                        }
                    }
                    _ => {}
                }
                if let Some((a, b)) = layout_text_edit {
                    info.layout_text = info.layout_text.replace(&a, &b);
                }
                for (name, body) in post {
                    if !name.contains('/') && !name.contains('\0') {
                        let _ = std::fs::write(dir.join(name), body);
                    }
                }
                let caller = own_ids(owners);
                let r = guarded(|| run_verify(&info, &caller, &dir, None));
                let _ = std::fs::remove_dir_all(&dir);
                let _ = now_secs();
                if let Err(pi) = r {
                    if !pi.in_library() {
                        panic!("harness panic {}:{} {}", pi.file, pi.line, pi.message);
                    }
                    o.fail(format!("C14/panic/{}/{}", pi.site(), pi.message_class()), format!("in_toto_verify panicked at {}:{}: {} (twist {:?})", pi.file, pi.line, pi.message, twist), "Ok or Err");
                }
            }
        }
        let _ = HashMap::<u8, u8>::new();
        let _: Option<Box<dyn SupplyChainItem>> = None;
        o
    }
    fn nontrivial_floor() -> f64 {
        0.3
    }
    fn max_shrink_iters() -> u32 {
        1500
    }
}
