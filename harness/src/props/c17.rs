//! C17 Decoding does not depend on how the JSON reaches the parser.

use crate::fw::*;
use crate::gen::attest::*;
use crate::gen::edit::*;
use crate::gen::json::*;
use crate::gen::keys::*;
use crate::gen::meta::*;
use crate::model::cjson::J;
use crate::model::keyid::key_wire;
use in_toto::interchange::{DataInterchange, Json};
use proptest::prelude::*;
use serde::de::DeserializeOwned;
use serde::{Deserialize, Serialize};
use serde_json::{json, Value};
use std::fmt::Debug;

pub struct C17;

#[derive(Clone, Copy, Debug, Serialize, Deserialize, PartialEq, Eq)]
pub enum Kind {
    Block,
    Wrapper,
    Layout,
    Link,
    Key,
    Signature,
    Rule,
    Step,
    Inspection,
    Statement,
    Predicate,
    LinkV02,
    SlsaV01,
    SlsaV02,
    StateNaive,
    StateV01,
    TimeStamp,
    Envelope,
}

#[derive(Clone, Debug, Serialize, Deserialize)]
pub struct Spec {
    pub kind: Kind,
    pub doc: J,
    pub spell: Vec<u8>,
    pub chunk: u8,
    /// cut the text after this fraction (u16 / 65536) of its bytes
    pub truncate: Option<u16>,
    /// append bytes after the complete document
    #[serde(default)]
    pub trailing: Option<u8>,
}

/// Objects that have a member whose name contains a lower-case ASCII letter (pre-order).
fn sibling_sites(j: &J, path: &mut Vec<usize>, out: &mut Vec<(Vec<usize>, usize)>) {
    match j {
        J::Obj(o) => {
            for (i, (k, v)) in o.iter().enumerate() {
                if k.chars().any(|c| c.is_ascii_lowercase()) && !o.iter().any(|(k2, _)| *k2 == k.to_uppercase()) {
                    out.push((path.clone(), i));
                }
                path.push(i);
                sibling_sites(v, path, out);
                path.pop();
            }
        }
        J::Arr(a) => {
            for (i, v) in a.iter().enumerate() {
                path.push(i);
                sibling_sites(v, path, out);
                path.pop();
            }
        }
        _ => {}
    }
}

/// Right after one member, insert a member whose name differs in letter case only (not a duplicate: another name)
/// and whose string value differs in its first character. Document order is then not the sorted order.
fn add_case_sibling(doc: &mut J, sel: u16) {
    let mut sites = vec![];
    sibling_sites(doc, &mut vec![], &mut sites);
    if sites.is_empty() {
        return;
    }
    let (path, i) = sites[(sel as usize * sites.len()) >> 16].clone();
    let mut cur = doc;
    for step in path {
        cur = match cur {
            J::Obj(o) => &mut o[step].1,
            J::Arr(a) => &mut a[step],
            _ => return,
        };
    }
    if let J::Obj(o) = cur {
        let (k, v) = o[i].clone();
        let v2 = match v {
            J::Str(s) if !s.is_empty() => {
                let mut c: Vec<char> = s.chars().collect();
                c[0] = if c[0] == 'a' { 'b' } else { 'a' };
                J::Str(c.into_iter().collect())
            }
            other => other,
        };
        o.insert(i + 1, (k.to_uppercase(), v2));
    }
}

const TRAILING: &[&str] = &["x", "]", ",", "null", " {}", "\n[]", "0", "\"\"", "}", " \t\n", "//c", "\u{0}"];

/// A reader that hands out at most `chunk` bytes per call.
pub struct ChunkReader<'a> {
    pub data: &'a [u8],
    pub pos: usize,
    pub chunk: usize,
}

impl<'a> std::io::Read for ChunkReader<'a> {
    fn read(&mut self, buf: &mut [u8]) -> std::io::Result<usize> {
        let n = self.chunk.max(1).min(buf.len()).min(self.data.len() - self.pos);
        buf[..n].copy_from_slice(&self.data[self.pos..self.pos + n]);
        self.pos += n;
        Ok(n)
    }
}

/// A reader that delivers `data` and then fails with an I/O error (a connection that resets, a file that vanishes).
pub struct BrokenReader<'a> {
    pub data: &'a [u8],
    pub pos: usize,
}

impl<'a> std::io::Read for BrokenReader<'a> {
    fn read(&mut self, buf: &mut [u8]) -> std::io::Result<usize> {
        if self.pos >= self.data.len() {
            return Err(std::io::Error::new(std::io::ErrorKind::ConnectionReset, "connection reset"));
        }
        let n = 3.min(buf.len()).min(self.data.len() - self.pos);
        buf[..n].copy_from_slice(&self.data[self.pos..self.pos + n]);
        self.pos += n;
        Ok(n)
    }
}

pub fn channels<T: DeserializeOwned + PartialEq + Debug>(text: &str, chunk: usize) -> Vec<(&'static str, Result<T, String>)> {
    let mut out: Vec<(&'static str, Result<T, String>)> = vec![];
    out.push(("from_str", serde_json::from_str::<T>(text).map_err(|e| e.to_string())));
    out.push(("from_slice", serde_json::from_slice::<T>(text.as_bytes()).map_err(|e| e.to_string())));
    out.push((
        "from_reader",
        serde_json::from_reader::<_, T>(ChunkReader { data: text.as_bytes(), pos: 0, chunk }).map_err(|e| e.to_string()),
    ));
    let tree: Result<Value, String> = serde_json::from_str(text).map_err(|e| e.to_string());
    out.push(("from_value", tree.clone().and_then(|v| serde_json::from_value::<T>(v).map_err(|e| e.to_string()))));
    out.push(("Json::from_slice", Json::from_slice::<T>(text.as_bytes()).map_err(|e| e.to_string())));
    out.push((
        "Json::from_reader",
        Json::from_reader::<_, T>(ChunkReader { data: text.as_bytes(), pos: 0, chunk }).map_err(|e| e.to_string()),
    ));
    out.push(("Json::deserialize", tree.and_then(|v| Json::deserialize::<T>(&v).map_err(|e| e.to_string()))));
    out
}

/// Compare channels; returns (accepted by at least one, disagreement description)
pub fn compare<T: DeserializeOwned + PartialEq + Debug>(text: &str, chunk: usize) -> (bool, Option<(String, String)>) {
    let ch = channels::<T>(text, chunk);
    let any_ok = ch.iter().any(|(_, r)| r.is_ok());
    let first = &ch[0];
    for (name, r) in &ch[1..] {
        let same = match (&first.1, r) {
            (Ok(a), Ok(b)) => a == b,
            (Err(_), Err(_)) => true,
            _ => false,
        };
        if !same {
            let oks: Vec<&str> = ch.iter().filter(|(_, r)| r.is_ok()).map(|(n, _)| *n).collect();
            let errs: Vec<String> = ch.iter().filter_map(|(n, r)| r.as_ref().err().map(|e| format!("{}: {}", n, e))).collect();
            let sig = match (&first.1, r) {
                (Ok(_), Ok(_)) => format!("values-differ/{}", name),
                (Ok(_), Err(_)) => format!("{}-rejects", name),
                _ => format!("{}-accepts", name),
            };
            return (any_ok, Some((sig, format!("accepted by {:?}; rejected: {:?}; text = {:?}", oks, errs, text))));
        }
    }
    (any_ok, None)
}

fn sig_doc() -> BoxedStrategy<Value> {
    (ed_key(), "[0-9a-f]{0,16}").prop_map(|(k, s)| json!({"keyid": key_id_str(&k), "sig": if s.len() % 2 == 1 { format!("{}0", s) } else { s }})).boxed()
}

pub fn valid_doc() -> BoxedStrategy<(Kind, Value)> {
    let layout = layout_spec(true, true).prop_map(|l| serde_json::to_value(l.to_lib()).unwrap());
    let link = link_spec(true).prop_map(|l| serde_json::to_value(l.to_lib()).unwrap());
    let names = vec!["s1".to_string(), "s2".to_string()];
    prop_oneof![
        3 => (prop_oneof![layout.clone(), link.clone()], proptest::collection::vec(sig_doc(), 0..3))
            .prop_map(|(signed, sigs)| (Kind::Block, json!({"signatures": sigs, "signed": signed}))),
        1 => prop_oneof![layout.clone(), link.clone()].prop_map(|v| (Kind::Wrapper, v)),
        3 => layout.prop_map(|v| (Kind::Layout, v)),
        2 => link.prop_map(|v| (Kind::Link, v)),
        1 => any_key().prop_map(|k| (Kind::Key, key_wire(&k).1)),
        1 => sig_doc().prop_map(|v| (Kind::Signature, v)),
        3 => rule_spec(names.clone()).prop_map(|r| (Kind::Rule, r.to_wire())),
        1 => layout_spec(true, true).prop_filter_map("has step", |l| l.steps.first().map(|s| (Kind::Step, s.to_wire()))),
        1 => layout_spec(true, true).prop_filter_map("has inspection", |l| l.inspect.first().map(|s| (Kind::Inspection, s.to_wire()))),
        2 => statement_naive().prop_map(|v| (Kind::Statement, v)),
        3 => statement_v01().prop_map(|(v, _, _)| (Kind::Statement, v)),
        3 => predicate().prop_map(|(_, v)| (Kind::Predicate, v)),
        1 => link_v02().prop_map(|v| (Kind::LinkV02, v)),
        2 => slsa_v01().prop_map(|v| (Kind::SlsaV01, v)),
        2 => slsa_v02().prop_map(|v| (Kind::SlsaV02, v)),
        1 => statement_naive().prop_map(|v| (Kind::StateNaive, v)),
        2 => statement_v01().prop_map(|(v, _, _)| (Kind::StateV01, v)),
        2 => timestamp_text().prop_map(|s| (Kind::TimeStamp, Value::String(s))),
        1 => ("[A-Za-z0-9+/=]{0,12}", "[a-z/.]{0,10}", proptest::collection::vec(sig_doc(), 0..2))
            .prop_map(|(p, t, s)| (Kind::Envelope, json!({"payload": p, "payload_type": t, "signatures": s}))),
    ]
    .boxed()
}

fn has_rule_or_timestamp(kind: Kind, v: &Value) -> bool {
    fn walk(v: &Value) -> bool {
        match v {
            Value::Object(o) => o.iter().any(|(k, x)| {
                ((k == "expected_materials" || k == "expected_products") && x.as_array().map(|a| !a.is_empty()).unwrap_or(false))
                    || k == "buildStartedOn"
                    || k == "buildFinishedOn"
                    || walk(x)
            }),
            Value::Array(a) => a.iter().any(walk),
            _ => false,
        }
    }
    matches!(kind, Kind::Rule | Kind::TimeStamp) || walk(v)
}

impl Property for C17 {
    type Spec = Spec;
    fn id() -> &'static str {
        "C17"
    }
    fn rule() -> String {
        "Generated: valid documents of every public type (signed block, metadata wrapper, layout, link, key, signature, rule, step, \
         inspection, statement, predicate; through the hook also LinkV02, SLSA v0.1/v0.2, both statement types, TimeStamp, envelope file), \
         a share of them with one tree edit (often invalid), rendered with random member order, whitespace and per-character escape \
         spelling (e.g. \\u0043REATE), optionally truncated or followed by trailing bytes (junk, whitespace, a second document); no duplicate member names. For layout and link documents the auto-detecting constructors MetadataWrapper::try_from_bytes and MetablockBuilder::from_raw_metadata must agree with the typed parser MetadataWrapper::from_bytes, also when a member is named twice (plainly or through an escape). History: in the cases with an odd chunk size an earlier Json::from_reader / JsonPretty::from_reader call in the same process broke off with an I/O error after delivering the first half of the text. Oracle: serde_json::from_str, from_slice, from_reader \
         (reader returning 1-7 bytes per call), from_str::<Value>+from_value, Json::from_slice, Json::from_reader, Json::deserialize are all \
         Err or all Ok with equal values. Non-trivial: accepted by at least one channel; distinct by (type, document, spelling)."
            .into()
    }
    fn assumptions() -> Vec<String> {
        vec!["documents with duplicate member names are outside the domain (serde_json::Value keeps the last duplicate, typed decoding reports an error)".into()]
    }
    fn cases(tier: Tier) -> u64 {
        tier.pick(400_000, 2_000_000)
    }
    fn strategy(_tier: Tier) -> BoxedStrategy<Spec> {
        (valid_doc(), proptest::option::weighted(0.3, tree_edit()), entropy(), 1u8..8, proptest::option::weighted(0.05, any::<u16>()), proptest::option::weighted(0.12, any::<u8>()), proptest::option::weighted(0.12, any::<u16>()))
            .prop_map(|((kind, v), edit, spell, chunk, truncate, trailing, sibling)| {
                let v = match edit {
                    Some(e) => apply_edit(&v, &e).map(|(v, _)| v).unwrap_or(v),
                    None => v,
                };
                let mut doc = J::from_value(&v);
                if let Some(sel) = sibling {
                    add_case_sibling(&mut doc, sel);
                }
                Spec { kind, doc, spell, chunk, truncate, trailing }
            })
            .boxed()
    }
    fn concurrent() -> bool {
        true
    }
    fn check(spec: &Spec, _env: &mut Env) -> Outcome {
        let mut o = Outcome::new();
        let mut text = spelling(&spec.doc, &spec.spell);
        if let Some(t) = spec.truncate {
            let mut n = (text.len() * t as usize) >> 16;
            while !text.is_char_boundary(n) {
                n -= 1;
            }
            text.truncate(n);
        }
        if let Some(t) = spec.trailing {
            if t % 16 == 15 {
                // the whole document once more
                let again = text.clone();
                text.push_str(&again);
            } else {
                text.push_str(TRAILING[t as usize % TRAILING.len()]);
            }
            o.class("trailing-bytes");
        }
        let chunk = spec.chunk as usize;
        if spec.chunk % 2 == 1 {
            // history: an earlier read through the reader channel broke off with an I/O error after
            // delivering the first half of this text (both reader entry points)
            let half = &text.as_bytes()[..text.len() / 2];
            let _ = Json::from_reader::<_, Value>(BrokenReader { data: half, pos: 0 });
            let _ = in_toto::interchange::JsonPretty::from_reader::<_, Value>(BrokenReader { data: half, pos: 0 });
            o.class("after-an-interrupted-read");
        }
        use in_toto::crypto::{PublicKey, Signature};
        use in_toto::models::inspection::Inspection;
        use in_toto::models::rule::ArtifactRule;
        use in_toto::models::step::Step;
        use in_toto::models::{LayoutMetadata, LinkMetadata, Metablock, MetadataWrapper, PredicateWrapper, StatementWrapper};
        use in_toto::verif_hooks as h;
        let (accepted, diff) = match spec.kind {
            Kind::Block => compare::<Metablock>(&text, chunk),
            Kind::Wrapper => compare::<MetadataWrapper>(&text, chunk),
            Kind::Layout => compare::<LayoutMetadata>(&text, chunk),
            Kind::Link => compare::<LinkMetadata>(&text, chunk),
            Kind::Key => compare::<PublicKey>(&text, chunk),
            Kind::Signature => compare::<Signature>(&text, chunk),
            Kind::Rule => compare::<ArtifactRule>(&text, chunk),
            Kind::Step => compare::<Step>(&text, chunk),
            Kind::Inspection => compare::<Inspection>(&text, chunk),
            Kind::Statement => compare::<StatementWrapper>(&text, chunk),
            Kind::Predicate => compare::<PredicateWrapper>(&text, chunk),
            Kind::LinkV02 => compare::<h::LinkV02>(&text, chunk),
            Kind::SlsaV01 => compare::<h::SLSAProvenanceV01>(&text, chunk),
            Kind::SlsaV02 => compare::<h::SLSAProvenanceV02>(&text, chunk),
            Kind::StateNaive => compare::<h::StateNaive>(&text, chunk),
            Kind::StateV01 => compare::<h::StateV01>(&text, chunk),
            Kind::TimeStamp => compare::<h::TimeStamp>(&text, chunk),
            Kind::Envelope => compare::<h::EnvelopeFile>(&text, chunk),
        };
        o.evals = 7;
        o.class(format!("kind:{:?}", spec.kind));
        o.class(if accepted { "accepted" } else { "rejected-by-all" });
        let rt = has_rule_or_timestamp(spec.kind, &spec.doc.to_value());
        if rt {
            o.class("has-rule-or-timestamp");
        }
        if accepted {
            o.nontrivial(format!("{:?}|{}", spec.kind, text));
        }
        if let Some((sig, detail)) = diff {
            o.fail(format!("C17/{:?}/{}", spec.kind, sig), detail, "all channels agree");
        }
        // The auto-detecting constructors (MetadataWrapper::try_from_bytes, MetablockBuilder::from_raw_metadata) must give
        // the verdict and value of the typed text parsers - also for a document that names a member twice, which the
        // typed parsers refuse (a JSON tree silently keeps the last one, so tree-based channels are not compared here).
        if matches!(spec.kind, Kind::Layout | Kind::Link | Kind::Wrapper) {
            use in_toto::models::{MetablockBuilder, MetadataType};
            let mut variants = vec![text.clone()];
            if let Some(rest) = text.trim_start().strip_prefix('{') {
                let member = if spec.chunk % 3 == 0 { "\"name\":\"dup\"," } else if spec.chunk % 3 == 1 { "\"\\u006eame\":\"dup\",\"expires\":\"2030-01-01T00:00:00Z\"," } else { "\"_type\":\"link\"," };
                variants.push(format!("{{{}{}", member, rest));
            }
            for t in variants {
                let typed: Option<MetadataWrapper> = MetadataWrapper::from_bytes(t.as_bytes(), MetadataType::Layout).ok().or_else(|| MetadataWrapper::from_bytes(t.as_bytes(), MetadataType::Link).ok());
                let auto = MetadataWrapper::try_from_bytes(t.as_bytes()).ok();
                let builder = MetablockBuilder::from_raw_metadata(t.as_bytes()).ok().map(|b| b.build().metadata);
                o.evals += 2;
                if auto != typed {
                    o.fail("C17/auto-detect/try_from_bytes-differs-from-typed-parse", format!("try_from_bytes = {:?}, from_bytes = {:?} for {:?}", auto.is_some(), typed.is_some(), t), "same verdict and value");
                }
                if builder != typed {
                    o.fail("C17/auto-detect/from_raw_metadata-differs-from-typed-parse", format!("from_raw_metadata = {:?}, from_bytes = {:?} for {:?}", builder.is_some(), typed.is_some(), t), "same verdict and value");
                }
            }
            o.class("auto-detecting-constructors");
        }
        o
    }
    fn nontrivial_floor() -> f64 {
        0.4
    }
    fn class_floors() -> Vec<(&'static str, f64)> {
        vec![("has-rule-or-timestamp", 0.2)]
    }
}
