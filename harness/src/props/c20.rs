//! C20 Envelope pre-authentication encoding is injective and round-trips.

use crate::fw::*;
use crate::gen::text::*;
use in_toto::verif_hooks::{pae_pack, pae_try_unpack, pae_unpack};
use proptest::prelude::*;
use serde::{Deserialize, Serialize};

pub struct C20;

#[derive(Clone, Debug, Serialize, Deserialize)]
pub enum Spec {
    /// pack/unpack round trip and agreement with the DSSE reference encoder
    Pair { typ: String, payload: Vec<u8> },
    /// two pairs; different pairs must pack to different bytes
    Pairs { a: (String, Vec<u8>), b: (String, Vec<u8>) },
    /// arbitrary bytes offered to the decoder
    Decode { bytes: Vec<u8> },
}

/// DSSE v1 PAE, transcribed from the specification:
/// "DSSEv1" SP LEN(type) SP type SP LEN(body) SP body
pub fn reference_pae(typ: &str, payload: &[u8]) -> Vec<u8> {
    let mut out = Vec::new();
    out.extend_from_slice(b"DSSEv1");
    out.push(b' ');
    out.extend_from_slice(typ.as_bytes().len().to_string().as_bytes());
    out.push(b' ');
    out.extend_from_slice(typ.as_bytes());
    out.push(b' ');
    out.extend_from_slice(payload.len().to_string().as_bytes());
    out.push(b' ');
    out.extend_from_slice(payload);
    out
}

const FRAMING: &[u8] = b"DSEv1 0123456789+-";

fn framing_byte() -> impl Strategy<Value = u8> {
    (0..FRAMING.len()).prop_map(|i| FRAMING[i])
}

fn payload() -> BoxedStrategy<Vec<u8>> {
    prop_oneof![
        1 => Just(vec![]),
        4 => proptest::collection::vec(any::<u8>(), 0..40),
        4 => proptest::collection::vec(framing_byte(), 0..24),
        2 => (typ(), proptest::collection::vec(any::<u8>(), 0..12))
            .prop_map(|(t, p)| reference_pae(&t, &p)),
        1 => proptest::collection::vec(any::<u8>(), 1000..3000),
    ]
    .boxed()
}

fn typ() -> BoxedStrategy<String> {
    prop_oneof![
        1 => Just(String::new()),
        2 => Just("link".to_string()),
        1 => Just("https://in-toto.io/Statement/v0.1".to_string()),
        4 => text(12),
        4 => proptest::collection::vec(framing_byte(), 0..10)
            .prop_map(|v| String::from_utf8(v).unwrap()),
    ]
    .boxed()
}

fn pair() -> BoxedStrategy<(String, Vec<u8>)> {
    prop_oneof![
        9 => (typ(), payload()),
        // the payload is itself an encoding under the *same* type (re-wrapping a stored signing input), possibly
        // followed by further bytes
        2 => (typ(), payload(), proptest::collection::vec(any::<u8>(), 0..4), any::<bool>()).prop_map(|(t, p, tail, junk)| {
            let mut inner = reference_pae(&t, &p);
            if junk {
                inner.extend_from_slice(&tail);
            }
            (t, inner)
        }),
    ]
    .boxed()
}

/// Move `k` bytes across the type/payload boundary (when that keeps the type valid UTF-8).
fn shifted(t: &str, p: &[u8], k: i8) -> (String, Vec<u8>) {
    if k >= 0 {
        let k = (k as usize).min(p.len());
        let mut tb = t.as_bytes().to_vec();
        tb.extend_from_slice(&p[..k]);
        match String::from_utf8(tb) {
            Ok(t2) => (t2, p[k..].to_vec()),
            Err(_) => (t.to_string(), p.to_vec()),
        }
    } else {
        let k = ((-(k as i16)) as usize).min(t.len());
        let cut = t.len() - k;
        if t.is_char_boundary(cut) {
            let mut p2 = t.as_bytes()[cut..].to_vec();
            p2.extend_from_slice(p);
            (t[..cut].to_string(), p2)
        } else {
            (t.to_string(), p.to_vec())
        }
    }
}

fn mutated_encoding() -> BoxedStrategy<Vec<u8>> {
    (pair(), 0usize..8, any::<prop::sample::Index>(), any::<u8>(), 0usize..6)
        .prop_map(|((t, p), kind, idx, byte, huge)| {
            let enc = reference_pae(&t, &p);
            let huge_s = ["18446744073709551615", "18446744073709551616", "9223372036854775808",
                "4294967296", "99999999999999999999999", "-1"][huge];
            match kind {
                0 => {
                    // truncate
                    let n = idx.index(enc.len() + 1);
                    enc[..n].to_vec()
                }
                1 => {
                    // replace one byte
                    let mut e = enc.clone();
                    if !e.is_empty() {
                        let i = idx.index(e.len());
                        e[i] = byte;
                    }
                    e
                }
                2 => {
                    // type length +1
                    let mut out = b"DSSEv1 ".to_vec();
                    out.extend_from_slice((t.len() + 1).to_string().as_bytes());
                    out.push(b' ');
                    out.extend_from_slice(t.as_bytes());
                    out.push(b' ');
                    out.extend_from_slice(p.len().to_string().as_bytes());
                    out.push(b' ');
                    out.extend_from_slice(&p);
                    out
                }
                3 => {
                    // payload length lies (too long)
                    let mut out = b"DSSEv1 ".to_vec();
                    out.extend_from_slice(t.len().to_string().as_bytes());
                    out.push(b' ');
                    out.extend_from_slice(t.as_bytes());
                    out.push(b' ');
                    out.extend_from_slice((p.len() + 1 + idx.index(5)).to_string().as_bytes());
                    out.push(b' ');
                    out.extend_from_slice(&p);
                    out
                }
                4 => {
                    // huge type length
                    let mut out = b"DSSEv1 ".to_vec();
                    out.extend_from_slice(huge_s.as_bytes());
                    out.push(b' ');
                    out.extend_from_slice(t.as_bytes());
                    out.push(b' ');
                    out.extend_from_slice(p.len().to_string().as_bytes());
                    out.push(b' ');
                    out.extend_from_slice(&p);
                    out
                }
                5 => {
                    // huge payload length
                    let mut out = b"DSSEv1 ".to_vec();
                    out.extend_from_slice(t.len().to_string().as_bytes());
                    out.push(b' ');
                    out.extend_from_slice(t.as_bytes());
                    out.push(b' ');
                    out.extend_from_slice(huge_s.as_bytes());
                    out.push(b' ');
                    out.extend_from_slice(&p);
                    out
                }
                6 => {
                    // missing separator after the type
                    let mut out = b"DSSEv1 ".to_vec();
                    out.extend_from_slice(t.len().to_string().as_bytes());
                    out.push(b' ');
                    out.extend_from_slice(t.as_bytes());
                    out
                }
                _ => {
                    // delete one byte
                    let mut e = enc.clone();
                    if !e.is_empty() {
                        let i = idx.index(e.len());
                        e.remove(i);
                    }
                    e
                }
            }
        })
        .boxed()
}

const ENUM_ALPHABET: &[u8] = b"012 9a+-\xff";

fn enum_len(tier: Tier) -> usize {
    tier.pick(6, 8)
}

impl Property for C20 {
    type Spec = Spec;
    fn id() -> &'static str {
        "C20"
    }
    fn rule() -> String {
        format!("Generated: (type,payload) pairs (types from Unicode text / framing alphabet; payloads random bytes, \
         framing characters, nested encodings - also under the very type they are packed under again -, long), near-collision pairs made by moving bytes across the type/payload \
         boundary, and decoder inputs (random bytes, mutated valid encodings: truncation, byte edits, lengths +-1, huge lengths, \
         missing separators). Enumerated: every byte string 'DSSEv1 '+s with s over the alphabet {{0,1,2,space,9,a,+,-,0xff}} \
         up to length {} (quick) / {} (thorough), and every s of length <= 4 without the prefix. Oracles: unpack(pack(t,p))==(p,t); \
         pack == reference DSSE PAE; different pairs => different bytes; unpack never panics. Non-trivial: type or payload contains \
         a framing character (space, digit, 'D','S','E','v'), or the decoder input is a mutation of a valid encoding or an enumerated framing string; \
         distinct by the exact input.", 6, 8)
    }
    fn assumptions() -> Vec<String> {
        vec![
            "reference PAE transcribed from the DSSE v1 specification".into(),
            "pack/unpack reached through the guarded re-export verif_hooks::pae_*".into(),
        ]
    }
    fn cases(tier: Tier) -> u64 {
        tier.pick(1_200_000, 10_000_000)
    }
    fn strategy(_tier: Tier) -> BoxedStrategy<Spec> {
        prop_oneof![
            4 => pair().prop_map(|(typ, payload)| Spec::Pair { typ, payload }),
            2 => (pair(), pair()).prop_map(|(a, b)| Spec::Pairs { a, b }),
            3 => (pair(), -6i8..7).prop_map(|(a, k)| {
                let b = shifted(&a.0, &a.1, k);
                Spec::Pairs { a, b }
            }),
            3 => mutated_encoding().prop_map(|bytes| Spec::Decode { bytes }),
            1 => proptest::collection::vec(any::<u8>(), 0..64).prop_map(|bytes| Spec::Decode { bytes }),
            1 => proptest::collection::vec(framing_byte(), 0..20).prop_map(|mut b| {
                let mut bytes = b"DSSEv1 ".to_vec();
                bytes.append(&mut b);
                Spec::Decode { bytes }
            }),
        ]
        .boxed()
    }
    fn enumerate(tier: Tier, worker: usize, workers: usize) -> Box<dyn Iterator<Item = Spec>> {
        let l = enum_len(tier);
        let a = ENUM_ALPHABET.len() as u64;
        // index space: for len 0..=l with prefix, then len 0..=4 without prefix
        let mut items: Vec<(bool, usize)> = (0..=l).map(|n| (true, n)).collect();
        items.extend((0..=4usize).map(|n| (false, n)));
        let it = items.into_iter().flat_map(move |(prefix, n)| {
            let count = a.pow(n as u32);
            (0..count).filter(move |i| (*i as usize) % workers == worker).map(move |mut i| {
                let mut bytes = if prefix { b"DSSEv1 ".to_vec() } else { vec![] };
                for _ in 0..n {
                    bytes.push(ENUM_ALPHABET[(i % a) as usize]);
                    i /= a;
                }
                Spec::Decode { bytes }
            })
        });
        Box::new(it)
    }
    fn enumeration_exhaustive(tier: Tier) -> Option<String> {
        Some(format!(
            "decoder inputs 'DSSEv1 '+s for all s over a 9-letter framing alphabet with |s| <= {}, and all s with |s| <= 4 without prefix",
            enum_len(tier)
        ))
    }
    fn concurrent() -> bool {
        true
    }
    fn check(spec: &Spec, _env: &mut Env) -> Outcome {
        let mut o = Outcome::new();
        let framing = |t: &str, p: &[u8]| {
            t.bytes().chain(p.iter().cloned()).any(|b| b == b' ' || b.is_ascii_digit() || b"DSEv".contains(&b))
        };
        match spec {
            Spec::Pair { typ, payload } => {
                o.class("pair");
                if framing(typ, payload) {
                    o.nontrivial(format!("P|{:?}|{:?}", typ, payload));
                }
                let packed = pae_pack(typ.clone(), payload);
                let reference = reference_pae(typ, payload);
                if packed != reference {
                    o.fail("C20/pack/differs-from-reference",
                        format!("pack({:?},{:?}) = {:?}", typ, payload, String::from_utf8_lossy(&packed)),
                        format!("{:?}", String::from_utf8_lossy(&reference)));
                }
                for (name, f) in [("unpack", pae_unpack as fn(&[u8]) -> in_toto::Result<(Vec<u8>, String)>), ("try_unpack", pae_try_unpack)] {
                    match guarded(|| f(&packed)) {
                        Err(pi) => o.fail(format!("C20/{}/panic-on-own-encoding", name),
                            format!("panic {}:{} {}", pi.file, pi.line, pi.message), "Ok(original pair)"),
                        Ok(Ok((p2, t2))) => {
                            if &p2 != payload || &t2 != typ {
                                o.fail(format!("C20/{}/roundtrip-mismatch", name),
                                    format!("unpack(pack({:?},{:?})) = ({:?},{:?})", typ, payload, t2, p2), "the original pair");
                            }
                        }
                        Ok(Err(e)) => o.fail(format!("C20/{}/roundtrip-error", name),
                            format!("unpack(pack({:?},{:?})) = Err({})", typ, payload, e), "Ok(original pair)"),
                    }
                }
            }
            Spec::Pairs { a, b } => {
                o.class("pairs");
                let same = a == b;
                if !same && (framing(&a.0, &a.1) || framing(&b.0, &b.1)) {
                    o.nontrivial(format!("Q|{:?}|{:?}", a, b));
                }
                if same {
                    o.class("pairs-equal");
                }
                let pa = pae_pack(a.0.clone(), &a.1);
                let pb = pae_pack(b.0.clone(), &b.1);
                if !same && pa == pb {
                    o.fail("C20/pack/collision", format!("{:?} and {:?} both pack to {:?}", a, b, String::from_utf8_lossy(&pa)), "different bytes");
                }
                if same && pa != pb {
                    o.fail("C20/pack/nondeterministic", format!("{:?} packs to two encodings", a), "equal bytes");
                }
            }
            Spec::Decode { bytes } => {
                o.class("decode");
                o.nontrivial(format!("D|{:?}", bytes));
                match guarded(|| pae_unpack(bytes)) {
                    Err(pi) => o.fail(
                        format!("C20/unpack/panic/{}", pi.message_class()),
                        format!("unpack({:?}) panicked at {}:{}: {}", String::from_utf8_lossy(bytes), pi.file, pi.line, pi.message),
                        "a pair or an error"),
                    Ok(Ok((p, t))) => {
                        o.class("decode-ok");
                        let _ = (p, t);
                    }
                    Ok(Err(_)) => o.class("decode-err"),
                }
                match guarded(|| pae_try_unpack(bytes)) {
                    Err(pi) => o.fail(
                        format!("C20/try_unpack/panic/{}", pi.message_class()),
                        format!("try_unpack({:?}) panicked at {}:{}: {}", String::from_utf8_lossy(bytes), pi.file, pi.line, pi.message),
                        "a pair or an error"),
                    Ok(_) => {}
                }
            }
        }
        o
    }
    fn nontrivial_floor() -> f64 {
        0.3
    }
}
