//! C18 Recorded artifacts are exactly the files present, with their true digests.

use std::collections::{BTreeMap, BTreeSet};
use std::path::{Path, PathBuf};

use crate::fw::*;
use crate::gen::meta::*;
use crate::model::keyid::hex;
use crate::model::sha2::{sha256, sha512};
use in_toto::runlib::{in_toto_run, record_artifacts};
use proptest::prelude::*;
use serde::{Deserialize, Serialize};

pub struct C18;

pub const SEGS: &[&str] = &["a", "b", "sub", "d e", "ünï", ".hid", "f.txt", "x", "ab", "A", "f.txt.bak", "su", "t"];
pub const SIZES: &[usize] = &[0, 1, 1023, 1024, 1025, 4096, 70000, 7];
/// sizes at the edges of hash blocks (SHA-256: 64, padding edge 55/56; SHA-512: 128, 111/112) and of plausible read buffers
pub const EDGE_SIZES: &[usize] = &[55, 56, 63, 64, 65, 111, 112, 119, 120, 127, 128, 129, 4095, 4097, 8191, 8192, 8193, 16383, 16384, 16385, 32767, 32768, 32769, 49152, 65535, 65536, 65537, 131072, 1 << 20];

#[derive(Clone, Debug, Serialize, Deserialize, PartialEq, Eq)]
pub enum Entry {
    File { path: Vec<u8>, size: u8, fill: u8 },
    Dir { path: Vec<u8> },
    /// symlink at `path` to the entry number `to` created earlier (or to an ancestor directory of the link when `ancestor`)
    Symlink { path: Vec<u8>, to: u8, ancestor: Option<u8>, absolute: bool },
}

#[derive(Clone, Debug, Serialize, Deserialize, PartialEq, Eq)]
pub enum Arg {
    Root,
    Dot,
    DotSlashRoot,
    /// path of entry number i (file or directory)
    EntryPath(u8),
    /// the same with "/./" and "//" noise
    Noisy(u8),
    /// the top-level directory (first path segment) of entry number i
    FirstSegDir(u8),
    /// `t/<first segment>/../<path of entry i>`: a `..` that steps back over a real directory, a regular file or a missing name
    DotDot(u8, u8),
}

#[derive(Clone, Debug, Serialize, Deserialize, PartialEq, Eq)]
pub enum Algs {
    Default,
    Sha256,
    Sha512,
    Both,
    Unknown,
}

#[derive(Clone, Debug, Serialize, Deserialize, PartialEq, Eq)]
pub enum RunOp {
    Create(Vec<u8>, u8),
    Append(u8),
    Delete(u8),
    Echo(u8),
    EchoErr(u8),
    /// the first regular file directly under t/ gets other bytes of the same length and keeps its modification time
    /// (what `mv`, `cp -p`, `rsync -t` or unpacking an archive leave behind)
    SwapSameSize,
}

#[derive(Clone, Debug, Serialize, Deserialize, PartialEq, Eq)]
pub struct RunPlan {
    pub ops: Vec<RunOp>,
    pub exit: u8,
    pub run_dir_dot: bool,
    /// record-only use: no command at all (empty argument list)
    #[serde(default)]
    pub no_command: bool,
    /// products are recorded for the first `n % (len+1)` of the path arguments only (None: the same list as the materials)
    #[serde(default)]
    pub product_args: Option<u8>,
    /// instead of exiting, the command kills itself with this signal (index into KILL, TERM, ABRT, SEGV, HUP)
    #[serde(default)]
    pub kill: Option<u8>,
    /// the command additionally writes this many KiB to its standard error and then to its standard output
    #[serde(default)]
    pub bulk_kib: Option<(u16, u16)>,
}

const SIGNALS: &[&str] = &["KILL", "TERM", "ABRT", "SEGV", "HUP"];

#[derive(Clone, Debug, Serialize, Deserialize)]
pub struct Spec {
    pub tree: Vec<Entry>,
    pub args: Vec<Arg>,
    /// strip prefixes: Some(list of selectors)
    pub lstrip: Option<Vec<u8>>,
    pub algs: Algs,
    pub run: Option<RunPlan>,
    /// history (plain recording only): after the first recording the tree is changed by this script and recorded again
    #[serde(default)]
    pub again: Option<RunPlan>,
    /// a separate scenario: a command whose *arguments* name files, run with or without a run directory; the command must
    /// receive its arguments as given (0: relative name with run_dir, 1: absolute symlink with run_dir, 2: relative name
    /// without run_dir, 3: non-normalised relative path with run_dir)
    #[serde(default)]
    pub argv_probe: Option<u8>,
}

fn rel(path: &[u8]) -> String {
    let segs: Vec<&str> = path.iter().map(|s| SEGS[*s as usize % SEGS.len()]).collect();
    segs.join("/")
}

fn entry_path(e: &Entry) -> &Vec<u8> {
    match e {
        Entry::File { path, .. } | Entry::Dir { path } | Entry::Symlink { path, .. } => path,
    }
}

#[derive(Default, Debug)]
pub struct Features {
    pub rel_symlink: bool,
    pub abs_symlink: bool,
    pub symlink_to_symlink: bool,
    pub symlink_to_dir: bool,
    pub cycle: bool,
    pub big_file: bool,
    pub overlapping: bool,
    pub strip_matched: bool,
    pub noisy_arg: bool,
    pub file_arg: bool,
}

/// Create the tree below `root`; returns features actually realised.
fn create_tree(root: &Path, tree: &[Entry], feat: &mut Features) {
    std::fs::create_dir_all(root).unwrap();
    for (i, e) in tree.iter().enumerate() {
        let p = root.join(rel(entry_path(e)));
        if std::fs::symlink_metadata(&p).is_ok() {
            continue; // name taken
        }
        if let Some(parent) = p.parent() {
            // do not create directories *through* symlinks or over files
            if std::fs::create_dir_all(parent).is_err() {
                continue;
            }
        }
        match e {
            Entry::File { size, fill, .. } => {
                let n = if *size < 128 { SIZES[*size as usize % SIZES.len()] } else { EDGE_SIZES[(*size as usize - 128) % EDGE_SIZES.len()] };
                let data: Vec<u8> = (0..n).map(|k| fill.wrapping_add((k % 251) as u8)).collect();
                if std::fs::write(&p, data).is_ok() && n > 1024 {
                    feat.big_file = true;
                }
            }
            Entry::Dir { .. } => {
                let _ = std::fs::create_dir_all(&p);
            }
            Entry::Symlink { path, to, ancestor, absolute } => {
                let target_rel: String = match ancestor {
                    Some(up) => {
                        let keep = path.len().saturating_sub(1 + *up as usize % path.len().max(1));
                        rel(&path[..keep])
                    }
                    None => {
                        if i == 0 {
                            continue;
                        }
                        rel(entry_path(&tree[*to as usize % i]))
                    }
                };
                let target_abs = if target_rel.is_empty() { root.to_path_buf() } else { root.join(&target_rel) };
                let Ok(md) = std::fs::metadata(&target_abs) else { continue }; // never create dangling links
                let link_target: PathBuf = if *absolute {
                    target_abs.clone()
                } else {
                    let ups = path.len() - 1;
                    let mut s = String::new();
                    for _ in 0..ups {
                        s.push_str("../");
                    }
                    if target_rel.is_empty() {
                        if s.is_empty() {
                            s.push('.');
                        }
                    } else {
                        s.push_str(&target_rel);
                    }
                    PathBuf::from(s)
                };
                if std::os::unix::fs::symlink(&link_target, &p).is_ok() {
                    if *absolute {
                        feat.abs_symlink = true;
                    } else {
                        feat.rel_symlink = true;
                    }
                    if md.is_dir() {
                        feat.symlink_to_dir = true;
                    }
                    if std::fs::symlink_metadata(&target_abs).map(|m| m.file_type().is_symlink()).unwrap_or(false) {
                        feat.symlink_to_symlink = true;
                    }
                    if ancestor.is_some() {
                        feat.cycle = true;
                    }
                }
            }
        }
    }
}

/// lexical normalisation of an argument (no `..` is ever generated)
fn clean(arg: &str) -> String {
    let mut parts: Vec<&str> = vec![];
    for seg in arg.split('/').filter(|s| !s.is_empty() && *s != ".") {
        if seg == ".." && parts.last().map(|p| *p != "..").unwrap_or(false) {
            parts.pop();
        } else {
            parts.push(seg);
        }
    }
    if parts.is_empty() {
        ".".to_string()
    } else {
        parts.join("/")
    }
}

fn join(display: &str, name: &str) -> String {
    if display == "." {
        name.to_string()
    } else {
        format!("{}/{}", display, name)
    }
}

#[derive(Debug)]
pub enum RefErr {
    Duplicate(String),
    UnknownAlgorithm,
    Dangling(String),
}

/// Independent walk: (display path, canonical real path) of every regular file reachable.
fn walk(display: &str, real: &Path, ancestors: &mut Vec<PathBuf>, out: &mut Vec<(String, PathBuf)>, feat: &mut Features, max_repeat: usize) -> Result<(), RefErr> {
    let md = std::fs::metadata(real).map_err(|_| RefErr::Dangling(display.to_string()))?;
    if md.is_file() {
        out.push((display.to_string(), std::fs::canonicalize(real).map_err(|_| RefErr::Dangling(display.to_string()))?));
    } else if md.is_dir() {
        let canon = std::fs::canonicalize(real).map_err(|_| RefErr::Dangling(display.to_string()))?;
        if ancestors.iter().filter(|a| **a == canon).count() >= max_repeat {
            feat.cycle = true;
            return Ok(()); // back in a directory that is already on the current descent path
        }
        ancestors.push(canon);
        let mut names: Vec<String> = std::fs::read_dir(real).map_err(|_| RefErr::Dangling(display.to_string()))?.flatten().map(|e| e.file_name().to_str().unwrap().to_string()).collect();
        names.sort();
        for n in names {
            walk(&join(display, &n), &real.join(&n), ancestors, out, feat, max_repeat)?;
        }
        ancestors.pop();
    }
    Ok(())
}

/// Reference outcome: `strict` = every regular file reachable without entering any directory twice
/// on one descent path (these entries are required); `upper` = key -> digests of everything reachable
/// when a directory may be entered up to twice on a descent path (entries beyond `strict` that a
/// cycle-tolerating walk may legitimately add: the statement only says cycles are tolerated, not
/// where exactly a cyclic descent stops).
pub struct Reference {
    pub strict: Result<Artifacts, RefErr>,
    pub upper: BTreeMap<String, Vec<Digests>>,
    pub upper_conflict: bool,
}

fn digests_of(canon: &Path, algs: &Algs) -> Option<Digests> {
    let data = std::fs::read(canon).ok()?;
    let mut d = Digests::new();
    if matches!(algs, Algs::Default | Algs::Sha256 | Algs::Both) {
        d.insert("sha256".into(), hex(&sha256(&data)));
    }
    if matches!(algs, Algs::Sha512 | Algs::Both) {
        d.insert("sha512".into(), hex(&sha512(&data)));
    }
    Some(d)
}

fn strip_key(display: &str, lstrip: &Option<Vec<String>>, feat: &mut Features) -> String {
    if let Some(ls) = lstrip {
        let best = ls.iter().filter(|p| display.starts_with(p.as_str())).max_by_key(|p| p.len());
        if let Some(p) = best {
            if !p.is_empty() {
                feat.strip_matched = true;
            }
            return display[p.len()..].to_string();
        }
    }
    display.to_string()
}

pub fn reference(cwd: &Path, args: &[String], lstrip: &Option<Vec<String>>, algs: &Algs, feat: &mut Features) -> Reference {
    if *algs == Algs::Unknown {
        return Reference { strict: Err(RefErr::UnknownAlgorithm), upper: BTreeMap::new(), upper_conflict: false };
    }
    let collect = |max_repeat: usize, feat: &mut Features| -> Result<Vec<(String, PathBuf)>, RefErr> {
        let mut found: Vec<(String, PathBuf)> = vec![];
        for a in args {
            let c = clean(a);
            let real = if c == "." { cwd.to_path_buf() } else { cwd.join(&c) };
            walk(&c, &real, &mut vec![], &mut found, feat, max_repeat)?;
        }
        Ok(found)
    };
    // strict
    let strict = (|| {
        let found = collect(1, feat)?;
        let mut byk: BTreeMap<String, PathBuf> = BTreeMap::new();
        for (display, canon) in found {
            let key = strip_key(&display, lstrip, feat);
            match byk.get(&key) {
                Some(prev) if *prev != canon => return Err(RefErr::Duplicate(key)),
                Some(_) => feat.overlapping = true,
                None => {
                    byk.insert(key, canon);
                }
            }
        }
        let mut out = Artifacts::new();
        for (key, canon) in byk {
            let d = digests_of(&canon, algs).ok_or_else(|| RefErr::Dangling(key.clone()))?;
            out.insert(key, d);
        }
        Ok(out)
    })();
    // upper bound
    let mut upper: BTreeMap<String, Vec<Digests>> = BTreeMap::new();
    let mut canons: BTreeMap<String, BTreeSet<PathBuf>> = BTreeMap::new();
    let mut scratch = Features::default();
    if let Ok(found) = collect(2, &mut scratch) {
        for (display, canon) in found {
            let key = strip_key(&display, lstrip, &mut scratch);
            if let Some(d) = digests_of(&canon, algs) {
                let e = upper.entry(key.clone()).or_default();
                if !e.contains(&d) {
                    e.push(d);
                }
            }
            canons.entry(key).or_default().insert(canon);
        }
    }
    let upper_conflict = canons.values().any(|c| c.len() > 1);
    Reference { strict, upper, upper_conflict }
}

fn arg_strings(spec: &Spec) -> Vec<String> {
    let n = spec.tree.len().max(1);
    spec.args
        .iter()
        .map(|a| match a {
            Arg::Root => "t".to_string(),
            Arg::Dot => ".".to_string(),
            Arg::DotSlashRoot => "./t".to_string(),
            Arg::EntryPath(i) => spec.tree.get(*i as usize % n).map(|e| format!("t/{}", rel(entry_path(e)))).unwrap_or_else(|| "t".into()),
            Arg::Noisy(i) => spec.tree.get(*i as usize % n).map(|e| format!("t/./{}//", rel(entry_path(e)).replace('/', "//"))).unwrap_or_else(|| "t/.".into()),
            Arg::FirstSegDir(i) => spec.tree.get(*i as usize % n).map(|e| format!("t/{}", rel(&entry_path(e)[..1]))).unwrap_or_else(|| "t".into()),
            Arg::DotDot(i, via) => {
                let target = spec.tree.get(*i as usize % n).map(|e| rel(entry_path(e))).unwrap_or_default();
                let over = match via % 3 {
                    0 => "nothing-here".to_string(),
                    _ => spec.tree.get(*via as usize % n).map(|e| rel(&entry_path(e)[..1])).unwrap_or_else(|| "nothing-here".into()),
                };
                format!("t/{}/../{}", over, target)
            }
        })
        .collect()
}

fn lstrip_strings(spec: &Spec) -> Option<Vec<String>> {
    let n = spec.tree.len().max(1);
    spec.lstrip.as_ref().map(|v| {
        v.iter()
            .map(|s| match s % 6 {
                0 => "t/".to_string(),
                1 => "t".to_string(),
                2 => "nomatch/".to_string(),
                3 => spec.tree.get((*s as usize / 6) % n).map(|e| format!("t/{}/", rel(&entry_path(e)[..1]))).unwrap_or_else(|| "t/".into()),
                4 => spec.tree.get((*s as usize / 6) % n).map(|e| format!("t/{}", rel(&entry_path(e)[..1]))).unwrap_or_else(|| "t/".into()),
                _ => String::new(),
            })
            .collect()
    })
}

fn run_script(plan: &RunPlan) -> (Vec<String>, String, String) {
    let mut s = String::from(":");
    let mut out = String::new();
    let mut err = String::new();
    for op in &plan.ops {
        s.push_str("; ");
        match op {
            RunOp::Create(p, fill) => {
                let r = format!("t/{}", rel(p));
                if let Some((d, _)) = r.rsplit_once('/') {
                    s.push_str(&format!("mkdir -p '{}' 2>/dev/null; ", d));
                }
                s.push_str(&format!("{{ printf 'new{}' > '{}'; }} 2>/dev/null", fill, r));
            }
            RunOp::Append(i) => s.push_str(&format!("for f in t/*; do if [ -f \"$f\" ] && [ ! -L \"$f\" ]; then {{ printf 'more{}' >> \"$f\"; }} 2>/dev/null; break; fi; done", i)),
            RunOp::Delete(i) => s.push_str(&format!("for f in t/*; do if [ -f \"$f\" ] && [ ! -L \"$f\" ]; then rm -f \"$f\"; break; fi; done # {}", i).replace(" # ", "; : ")),
            RunOp::Echo(n) => {
                s.push_str(&format!("echo out{}", n));
                out.push_str(&format!("out{}\n", n));
            }
            RunOp::EchoErr(n) => {
                s.push_str(&format!("echo err{} 1>&2", n));
                err.push_str(&format!("err{}\n", n));
            }
            RunOp::SwapSameSize => s.push_str(
                "for f in t/*; do if [ -f \"$f\" ] && [ ! -L \"$f\" ]; then n=$(wc -c < \"$f\"); touch -r \"$f\" .itv-stamp; \
                 { head -c \"$n\" /dev/zero | tr '\\0' 'Z' > \"$f\"; } 2>/dev/null; touch -r .itv-stamp \"$f\"; rm -f .itv-stamp; break; fi; done",
            ),
        }
    }
    if let Some((e, o)) = plan.bulk_kib {
        s.push_str(&format!("; head -c {} /dev/zero | tr '\\0' 'e' 1>&2; head -c {} /dev/zero | tr '\\0' 'o'", e as usize * 1024, o as usize * 1024));
        err.push_str(&"e".repeat(e as usize * 1024));
        out.push_str(&"o".repeat(o as usize * 1024));
    }
    match plan.kill {
        Some(k) => s.push_str(&format!("; kill -{} $$; sleep 5", SIGNALS[k as usize % SIGNALS.len()])),
        None => s.push_str(&format!("; exit {}", plan.exit)),
    }
    (vec!["sh".into(), "-c".into(), s], out, err)
}

fn path_strategy() -> BoxedStrategy<Vec<u8>> {
    prop_oneof![
        60 => proptest::collection::vec(0u8..SEGS.len() as u8, 1..=3),
        // cardinality tail: files below 39..60 nested directories
        1 => (prop_oneof![Just(39usize), Just(40), Just(41), Just(42), Just(60)], 0u8..SEGS.len() as u8).prop_map(|(n, s)| vec![s; n]),
    ]
    .boxed()
}

fn cause(feat: &Features) -> &'static str {
    if feat.rel_symlink {
        "relative-symlink"
    } else if feat.symlink_to_symlink {
        "symlink-to-symlink"
    } else if feat.overlapping {
        "same-file-reached-twice"
    } else if feat.cycle {
        "cycle"
    } else if feat.symlink_to_dir {
        "symlink-to-directory"
    } else if feat.abs_symlink {
        "absolute-symlink"
    } else if feat.strip_matched {
        "strip-prefix"
    } else if feat.noisy_arg {
        "non-normalised-argument"
    } else if feat.file_arg {
        "file-argument"
    } else if feat.big_file {
        "multi-block-file"
    } else {
        "plain-tree"
    }
}

impl Property for C18 {
    type Spec = Spec;
    fn id() -> &'static str {
        "C18"
    }
    fn rule() -> String {
        "Generated: directory trees of depth <= 3 (files of 0,1,7,1023,1024,1025,4096,70000 bytes and, for half of the files, sizes at hash-block and read-buffer edges: 55,56,63..65,111,112,119,120,127..129, 4095,4097, 8191..8193, 16383..16385, 32767..32769, 49152, 65535..65537, 131072, 1 MiB; names with spaces, Unicode, leading dots; \
         empty directories; absolute and relative symlinks to files, directories, other symlinks and ancestor directories = cycles; never \
         dangling), path argument lists (root, '.', './t', sub-directories, single files, overlapping, non-normalised 't/./sub//'), \
         strip-prefix lists (none, matching, overlapping prefixes of different length, non-matching, empty), hash algorithms {default, \
         sha256, sha512, both, unknown}; for in_toto_run an operation list (create, append, delete, replace a file by other bytes of the same length keeping its modification time, echo to stdout/stderr, exit k) compiled to \
         one sh -c command; a separate probe runs cat/readlink with arguments that name files (relative, through a symlink, non-normalised) with and without a run directory and requires the output of the command as given; commands may end by killing themselves with SIGKILL/TERM/ABRT/SEGV/HUP (a link then must not report exit status 0) and may write 0-256 KiB to stderr and then 0-200 KiB to stdout; one in_toto_run in five is record-only (empty command), and in a third of them the products are recorded for a prefix of the path arguments only; for plain recording optionally a second recording of the same arguments in the same process after such an operation list changed the tree. Oracle: an independent walk (follows symlinks) with the harness' own SHA-256/512: every file reachable without entering a directory \
         twice on one descent path must be recorded with its true digest, and any further entry must be a cyclic duplicate (reachable when a \
         directory may be entered twice) with a true digest - the statement does not say where a cyclic descent stops; two different files under one key => Err; unknown \
         algorithm => Err; in_toto_run: materials = reference snapshot before, products = snapshot after, byproducts = constructed \
         stdout/stderr/exit status. Non-trivial: the tree has a symlink, or a file > 1024 bytes, or arguments overlap, or a strip prefix \
         matched, or the command changed the tree; distinct by the whole case."
            .into()
    }
    fn assumptions() -> Vec<String> {
        vec![
            "dangling symlinks and non-UTF-8 names are outside the domain".into(),
            "a file reached twice under one key through overlapping arguments is one entry, not a conflict (two *different* files under one key are)".into(),
            "SHA-2 implemented in the harness, validated against NIST vectors and ring at start-up".into(),
        ]
    }
    fn cases(tier: Tier) -> u64 {
        tier.pick(24_000, 100_000)
    }
    fn strategy(_tier: Tier) -> BoxedStrategy<Spec> {
        let entry = prop_oneof![
            6 => (path_strategy(), any::<u8>(), any::<u8>()).prop_map(|(path, size, fill)| Entry::File { path, size, fill }),
            1 => path_strategy().prop_map(|path| Entry::Dir { path }),
            3 => (path_strategy(), any::<u8>(), proptest::option::weighted(0.2, any::<u8>()), any::<bool>()).prop_map(|(path, to, ancestor, absolute)| Entry::Symlink { path, to, ancestor, absolute }),
        ];
        let arg = prop_oneof![4 => Just(Arg::Root), 1 => Just(Arg::Dot), 1 => Just(Arg::DotSlashRoot), 2 => any::<u8>().prop_map(Arg::EntryPath), 1 => any::<u8>().prop_map(Arg::Noisy), 2 => any::<u8>().prop_map(Arg::FirstSegDir), 1 => (any::<u8>(), any::<u8>()).prop_map(|(a, b)| Arg::DotDot(a, b))];
        // scenario: equally named files in two top-level directories, recorded through two arguments with both prefixes stripped
        let collision = (0u8..SEGS.len() as u8, 0u8..SEGS.len() as u8, 0u8..SEGS.len() as u8, any::<u8>(), any::<u8>(), any::<bool>(), any::<bool>()).prop_map(|(d1, d2, name, f1, f2, same_content, one_arg)| {
            let d2 = if d2 == d1 { (d1 + 1) % SEGS.len() as u8 } else { d2 };
            Spec {
                tree: vec![Entry::File { path: vec![d1, name], size: 1, fill: f1 }, Entry::File { path: vec![d2, name], size: 1, fill: if same_content { f1 } else { f2 } }],
                args: if one_arg { vec![Arg::Root] } else { vec![Arg::FirstSegDir(0), Arg::FirstSegDir(1)] },
                lstrip: Some(vec![3, 9]),
                algs: Algs::Default,
                run: None,
                again: None,
                argv_probe: None,
            }
        });
        let op = prop_oneof![
            3 => (path_strategy(), any::<u8>()).prop_map(|(p, f)| RunOp::Create(p, f)),
            1 => any::<u8>().prop_map(RunOp::Append),
            1 => any::<u8>().prop_map(RunOp::Delete),
            1 => (0u8..5).prop_map(RunOp::Echo),
            1 => (0u8..5).prop_map(RunOp::EchoErr),
            2 => Just(RunOp::SwapSameSize),
        ];
        let general = (
            proptest::collection::vec(entry, 0..8),
            proptest::collection::vec(arg, 1..4),
            proptest::option::weighted(0.5, proptest::collection::vec(any::<u8>(), 0..3)),
            prop_oneof![3 => Just(Algs::Default), 2 => Just(Algs::Sha256), 1 => Just(Algs::Sha512), 2 => Just(Algs::Both), 1 => Just(Algs::Unknown)],
            proptest::option::weighted(0.3, (proptest::collection::vec(op.clone(), 0..4), prop_oneof![3 => Just(0u8), 1 => any::<u8>()], any::<bool>(), prop_oneof![4 => Just(false), 1 => Just(true)], proptest::option::weighted(0.3, any::<u8>()), proptest::option::weighted(0.15, 0u8..5), proptest::option::weighted(0.15, (prop_oneof![Just(0u16), Just(1), Just(63), Just(64), Just(65), Just(100), Just(256)], prop_oneof![Just(0u16), Just(1), Just(64), Just(65), Just(200)]))).prop_map(|(ops, exit, run_dir_dot, no_command, product_args, kill, bulk_kib)| RunPlan { ops, exit, run_dir_dot, no_command, product_args, kill, bulk_kib })),
            proptest::option::weighted(0.3, proptest::collection::vec(op, 1..3).prop_map(|ops| RunPlan { ops, exit: 0, run_dir_dot: false, no_command: false, product_args: None, kill: None, bulk_kib: None })),
        )
            .prop_map(|(tree, args, lstrip, algs, run, again)| Spec { tree, args, lstrip, algs, run, again, argv_probe: None })
            .boxed();
        let probe = (0u8..4).prop_map(|k| Spec { tree: vec![], args: vec![], lstrip: None, algs: Algs::Default, run: None, again: None, argv_probe: Some(k) });
        prop_oneof![48 => general, 4 => collision.boxed(), 1 => probe.boxed()].boxed()
    }
    fn check(spec: &Spec, env: &mut Env) -> Outcome {
        let mut o = Outcome::new();
        if let Some(k) = spec.argv_probe {
            // commands x run directory x arguments that name files
            o.class(format!("argv-probe:{}", k % 4));
            o.nontrivial(format!("argv|{}", k % 4));
            let case = env.fresh_dir("c18p");
            let rd = case.join("rd");
            std::fs::create_dir_all(&rd).unwrap();
            std::fs::create_dir_all(case.join("sub")).unwrap();
            std::fs::write(case.join("probe.txt"), "outer\n").unwrap();
            std::fs::write(rd.join("probe.txt"), "inner\n").unwrap();
            std::os::unix::fs::symlink("rd/probe.txt", case.join("lnk")).unwrap();
            let lnk_abs = case.join("lnk").display().to_string();
            let (cmd, run_dir, want_out, want_rv): (Vec<String>, Option<&str>, &str, i32) = match k % 4 {
                0 => (vec!["cat".into(), "probe.txt".into()], Some("rd"), "inner\n", 0),
                1 => (vec!["readlink".into(), lnk_abs], Some("rd"), "rd/probe.txt\n", 0),
                2 => (vec!["cat".into(), "probe.txt".into()], None, "outer\n", 0),
                _ => (vec!["cat".into(), "./sub/../probe.txt".into()], Some("rd"), "", 1),
            };
            let cmd_refs: Vec<&str> = cmd.iter().map(|s| s.as_str()).collect();
            let old = std::env::current_dir().unwrap();
            std::env::set_current_dir(&case).unwrap();
            let lib = guarded(|| in_toto_run("probe", run_dir, &[], &[], &cmd_refs, None, None, None));
            std::env::set_current_dir(&old).unwrap();
            let _ = std::fs::remove_dir_all(&case);
            match lib {
                Err(pi) => o.fail(format!("C18/run/panic/{}", pi.message_class()), format!("{}:{} {}", pi.file, pi.line, pi.message), "a link or an error"),
                Ok(Err(e)) => o.fail("C18/run/argv-probe/error", format!("Err({}) for {:?} in {:?}", e, cmd, run_dir), "a link"),
                Ok(Ok(block)) => {
                    if let in_toto::models::MetadataWrapper::Link(l) = &block.metadata {
                        let bp = ByprodSpec::from_lib(&l.byproducts);
                        if bp.stdout.as_deref() != Some(want_out) || bp.return_value != Some(want_rv) {
                            o.fail("C18/run/command-received-other-arguments", format!("{:?} in run directory {:?}: stdout {:?}, return value {:?}", cmd, run_dir, bp.stdout, bp.return_value), format!("stdout {:?}, return value {} (the command gets its arguments as given and resolves them in its own directory)", want_out, want_rv));
                        }
                    }
                }
            }
            return o;
        }
        let case = env.fresh_dir("c18");
        let mut feat = Features::default();
        create_tree(&case.join("t"), &spec.tree, &mut feat);
        let args = arg_strings(spec);
        feat.noisy_arg = spec.args.iter().any(|a| matches!(a, Arg::Noisy(_) | Arg::DotSlashRoot | Arg::DotDot(..)));
        // a `..` that steps back over a symbolic link is outside the domain (lexical and physical resolution differ)
        for a in &spec.args {
            if let Arg::DotDot(_, via) = a {
                if via % 3 != 0 {
                    if let Some(e) = spec.tree.get(*via as usize % spec.tree.len().max(1)) {
                        let over = case.join("t").join(rel(&entry_path(e)[..1]));
                        if std::fs::symlink_metadata(&over).map(|m| m.file_type().is_symlink()).unwrap_or(false) {
                            o.class("discarded:dotdot-over-symlink");
                            let _ = std::fs::remove_dir_all(&case);
                            return o;
                        }
                    }
                }
            }
        }
        feat.file_arg = args.iter().any(|a| std::fs::metadata(case.join(clean(a))).map(|m| m.is_file()).unwrap_or(false));
        let lstrip = lstrip_strings(spec);
        let alg_list: Option<Vec<&str>> = match spec.algs {
            Algs::Default => None,
            Algs::Sha256 => Some(vec!["sha256"]),
            Algs::Sha512 => Some(vec!["sha512"]),
            Algs::Both => Some(vec!["sha256", "sha512"]),
            Algs::Unknown => Some(vec!["sha256", "md5"]),
        };
        let arg_refs: Vec<&str> = args.iter().map(|s| s.as_str()).collect();
        let ls_refs: Option<Vec<&str>> = lstrip.as_ref().map(|v| v.iter().map(|s| s.as_str()).collect());
        let old = std::env::current_dir().unwrap();
        std::env::set_current_dir(&case).unwrap();
        let finish = |o: Outcome| {
            std::env::set_current_dir(&old).unwrap();
            let _ = std::fs::remove_dir_all(&case);
            o
        };
        // arguments that do not exist are outside the domain
        if args.iter().any(|a| std::fs::metadata(case.join(clean(a))).is_err()) {
            o.class("discarded:missing-argument");
            return finish(o);
        }
        let before = reference(&case, &args, &lstrip, &spec.algs, &mut feat);
        if let Err(RefErr::Dangling(_)) = before.strict {
            o.class("discarded:dangling");
            return finish(o);
        }
        let compare = |what: &str, lib: Result<Artifacts, String>, reference: &Reference, feat: &Features, o: &mut Outcome| match (lib, &reference.strict) {
            (Ok(got), Ok(want)) => {
                let missing: Vec<&String> = want.keys().filter(|k| !got.contains_key(*k)).collect();
                let wrong: Vec<&String> = want.keys().filter(|k| got.get(*k).map(|d| d != &want[*k]).unwrap_or(false)).collect();
                // entries beyond the required ones must be cyclic duplicates the upper bound knows, with a true digest
                let extra: Vec<&String> = got.iter().filter(|(k, d)| !want.contains_key(*k) && !reference.upper.get(*k).map(|ds| ds.contains(d)).unwrap_or(false)).map(|(k, _)| k).collect();
                if !missing.is_empty() || !wrong.is_empty() || !extra.is_empty() {
                    let kind = if !missing.is_empty() { "missing-entry" } else if !extra.is_empty() { "extra-entry" } else { "wrong-digest" };
                    o.fail(format!("C18/{}/{}/{}", what, kind, cause(feat)), format!("missing {:?}, wrong digest {:?}, unexplained extra {:?}; got {:?}", missing, wrong, extra, got), format!("{:?}", want));
                } else if got.len() > want.len() {
                    o.class("cyclic-duplicates-recorded");
                }
            }
            (Err(e), Ok(want)) => {
                if reference.upper_conflict {
                    o.class("error-on-cyclic-duplicate-conflict");
                } else {
                    o.fail(format!("C18/{}/error-on-recordable-tree/{}", what, cause(feat)), format!("Err({})", e), format!("Ok with {} entries {:?}", want.len(), want.keys().collect::<Vec<_>>()))
                }
            }
            (Ok(got), Err(RefErr::Duplicate(k))) => o.fail(format!("C18/{}/duplicate-key-not-reported", what), format!("Ok({:?})", got.keys().collect::<Vec<_>>()), format!("Err: two different files map to key {:?}", k)),
            (Ok(_), Err(RefErr::UnknownAlgorithm)) => o.fail(format!("C18/{}/unknown-algorithm-accepted", what), "Ok", "Err"),
            (Err(_), Err(_)) => {}
            (Ok(_), Err(RefErr::Dangling(_))) => {}
        };
        match &spec.run {
            None => {
                let lib = guarded(|| record_artifacts(&arg_refs, alg_list.as_deref(), ls_refs.as_deref()));
                let lib = match lib {
                    Ok(r) => r.map(|m| artifacts_from_lib(&m)).map_err(|e| e.to_string()),
                    Err(pi) => {
                        o.fail(format!("C18/record/panic/{}", pi.message_class()), format!("{}:{} {}", pi.file, pi.line, pi.message), "a map or an error");
                        return finish(o);
                    }
                };
                o.class(match (&lib, &before.strict) {
                    (Ok(_), _) => "lib:ok",
                    (Err(_), _) => "lib:err",
                });
                compare("record", lib, &before, &feat, &mut o);
                if let Some(plan) = &spec.again {
                    // history: change the tree, record the same arguments again in the same process
                    let (cmd, _, _) = run_script(plan);
                    let _ = std::process::Command::new(&cmd[0]).args(&cmd[1..]).stdout(std::process::Stdio::null()).stderr(std::process::Stdio::null()).status();
                    if args.iter().all(|a| std::fs::metadata(case.join(clean(a))).is_ok()) {
                        let after = reference(&case, &args, &lstrip, &spec.algs, &mut feat);
                        if !matches!(after.strict, Err(RefErr::Dangling(_))) {
                            o.class("recorded-again-after-change");
                            if plan.ops.contains(&RunOp::SwapSameSize) && matches!((&before.strict, &after.strict), (Ok(a), Ok(b)) if a != b) {
                                o.class("recorded-again-after-same-size-same-mtime-swap");
                            }
                            match guarded(|| record_artifacts(&arg_refs, alg_list.as_deref(), ls_refs.as_deref())) {
                                Ok(r) => compare("record-again", r.map(|m| artifacts_from_lib(&m)).map_err(|e| e.to_string()), &after, &feat, &mut o),
                                Err(pi) => o.fail(format!("C18/record/panic/{}", pi.message_class()), format!("{}:{} {}", pi.file, pi.line, pi.message), "a map or an error"),
                            }
                        }
                    }
                }
            }
            Some(plan) => {
                o.class("in_toto_run");
                let (cmd, want_out, want_err) = run_script(plan);
                let cmd_refs: Vec<&str> = if plan.no_command { vec![] } else { cmd.iter().map(|s| s.as_str()).collect() };
                // products may be recorded for a prefix of the path arguments only
                let nprod = plan.product_args.map(|n| n as usize % (args.len() + 1)).unwrap_or(args.len());
                let product_args: Vec<String> = args[..nprod].to_vec();
                let product_refs: Vec<&str> = product_args.iter().map(|s| s.as_str()).collect();
                if plan.no_command {
                    o.class("in_toto_run:record-only");
                }
                if nprod != args.len() {
                    o.class("in_toto_run:product-paths-differ-from-material-paths");
                }
                let signer = if plan.exit % 2 == 0 { Some(crate::gen::keys::private(&crate::gen::keys::KeySpec::Ed { seed: 33, pkcs8: true })) } else { None };
                let lib = guarded(|| in_toto_run("stepname", if plan.run_dir_dot { Some(".") } else { None }, &arg_refs, &product_refs, &cmd_refs, signer.as_deref(), alg_list.as_deref(), ls_refs.as_deref()));
                let after = reference(&case, &product_args, &lstrip, &spec.algs, &mut feat);
                let changed = matches!((&before.strict, &after.strict), (Ok(a), Ok(b)) if a != b);
                if changed {
                    o.class("run-changed-tree");
                }
                let killed = plan.kill.is_some() && !plan.no_command;
                if killed {
                    o.class("command-killed-by-signal");
                }
                if plan.bulk_kib.is_some() && !plan.no_command {
                    o.class("command-with-bulk-output");
                }
                match lib {
                    Err(pi) => o.fail(format!("C18/run/panic/{}", pi.message_class()), format!("{}:{} {}", pi.file, pi.line, pi.message), "a link or an error"),
                    Ok(Err(_)) if killed => o.class("lib:err"),
                    Ok(Ok(block)) if killed => {
                        // a command that was killed has no exit status; a link that reports success is false
                        o.class("lib:ok");
                        if let in_toto::models::MetadataWrapper::Link(l) = &block.metadata {
                            let bp = ByprodSpec::from_lib(&l.byproducts);
                            if bp.return_value == Some(0) {
                                o.fail("C18/run/killed-command-recorded-as-success", format!("return-value {:?} for a command killed by SIG{}", bp.return_value, SIGNALS[plan.kill.unwrap_or(0) as usize % SIGNALS.len()]), "an error, or byproducts that do not claim exit status 0");
                            }
                        }
                    }
                    Ok(Err(e)) => {
                        o.class("lib:err");
                        if let (Ok(b), Ok(a)) = (&before.strict, &after.strict) {
                            // arguments may vanish through the command; only demand success when they still exist
                            if args.iter().all(|x| std::fs::metadata(case.join(clean(x))).is_ok()) && !before.upper_conflict && !after.upper_conflict {
                                o.fail(format!("C18/run/error-on-recordable-tree/{}", cause(&feat)), format!("Err({})", e), format!("a link with {} materials and {} products", b.len(), a.len()));
                            }
                        }
                    }
                    Ok(Ok(block)) => {
                        o.class("lib:ok");
                        if let in_toto::models::MetadataWrapper::Link(l) = &block.metadata {
                            compare("run-materials", Ok(artifacts_from_lib(&l.materials)), &before, &feat, &mut o);
                            if !matches!(after.strict, Err(RefErr::Dangling(_))) {
                                compare("run-products", Ok(artifacts_from_lib(&l.products)), &after, &feat, &mut o);
                            }
                            let bp = ByprodSpec::from_lib(&l.byproducts);
                            if plan.no_command {
                                // nothing ran: there is no exit status or output to report
                            } else if bp.return_value != Some(plan.exit as i32) {
                                o.fail("C18/run/return-value", format!("{:?}", bp.return_value), format!("{}", plan.exit));
                            }
                            if plan.no_command {
                            } else if bp.stdout.as_deref() != Some(want_out.as_str()) {
                                o.fail("C18/run/stdout", format!("{:?}", bp.stdout), format!("{:?}", want_out));
                            }
                            if plan.no_command {
                            } else if bp.stderr.as_deref() != Some(want_err.as_str()) {
                                o.fail("C18/run/stderr", format!("{:?}", bp.stderr), format!("{:?}", want_err));
                            }
                            if l.name != "stepname" {
                                o.fail("C18/run/name", l.name.clone(), "stepname");
                            }
                            match &signer {
                                Some(sk) => {
                                    o.class("run-signed");
                                    if block.verify(1, [sk.public()]).is_err() {
                                        o.fail("C18/run/signature-of-returned-link-does-not-verify", "verify(1,[signer]) failed", "Ok");
                                    }
                                }
                                None => {
                                    if !block.signatures.is_empty() {
                                        o.fail("C18/run/unsigned-link-carries-signatures", format!("{} signatures", block.signatures.len()), "none");
                                    }
                                }
                            }
                        }
                    }
                }
                if changed {
                    feat.strip_matched = true; // counts as non-trivial below
                }
            }
        }
        let symlink = feat.rel_symlink || feat.abs_symlink;
        if symlink || feat.big_file || feat.overlapping || feat.strip_matched {
            o.nontrivial(format!("{:?}", spec));
        }
        for (name, on) in [("symlink:relative", feat.rel_symlink), ("symlink:absolute", feat.abs_symlink), ("symlink:to-symlink", feat.symlink_to_symlink), ("symlink:to-dir", feat.symlink_to_dir),
            ("cycle", feat.cycle), ("big-file", feat.big_file), ("overlapping-args", feat.overlapping), ("strip-matched", feat.strip_matched), ("reference:duplicate", matches!(before.strict, Err(RefErr::Duplicate(_))))] {
            if on {
                o.class(name);
            }
        }
        finish(o)
    }
    fn selftest(_env: &mut Env) -> Result<(), String> {
        crate::model::sha2::selftest()
    }
    fn nontrivial_floor() -> f64 {
        0.4
    }
    fn max_shrink_iters() -> u32 {
        600
    }
}
