//! Reference key description, key-id formula, PEM/base64 and DER SPKI writers.

use crate::gen::keys::*;
use crate::model::cjson::{olpc, J};
use ring::signature::KeyPair;
use serde_json::{json, Value};

pub fn base64(data: &[u8]) -> String {
    const T: &[u8; 64] = b"ABCDEFGHIJKLMNOPQRSTUVWXYZabcdefghijklmnopqrstuvwxyz0123456789+/";
    let mut out = String::new();
    for chunk in data.chunks(3) {
        let b = [chunk[0], *chunk.get(1).unwrap_or(&0), *chunk.get(2).unwrap_or(&0)];
        let n = ((b[0] as u32) << 16) | ((b[1] as u32) << 8) | b[2] as u32;
        out.push(T[(n >> 18) as usize & 63] as char);
        out.push(T[(n >> 12) as usize & 63] as char);
        out.push(if chunk.len() > 1 { T[(n >> 6) as usize & 63] as char } else { '=' });
        out.push(if chunk.len() > 2 { T[n as usize & 63] as char } else { '=' });
    }
    out
}

/// PEM "PUBLIC KEY" block, 64 columns, LF line ends, no trailing newline
/// (the form securesystemslib stores in `keyval.public`).
pub fn pem_public(der: &[u8]) -> String {
    let b = base64(der);
    let mut out = String::from("-----BEGIN PUBLIC KEY-----\n");
    for line in b.as_bytes().chunks(64) {
        out.push_str(std::str::from_utf8(line).unwrap());
        out.push('\n');
    }
    out.push_str("-----END PUBLIC KEY-----");
    out
}

pub fn hex(b: &[u8]) -> String {
    b.iter().map(|x| format!("{:02x}", x)).collect()
}

pub fn sha256_hex(b: &[u8]) -> String {
    hex(ring::digest::digest(&ring::digest::SHA256, b).as_ref())
}

pub struct KeyDesc {
    pub keytype: &'static str,
    pub scheme: &'static str,
    pub hash_algs: bool,
    pub public: String,
}

/// key id for an explicit `keyid_hash_algorithms` list (None = member absent)
pub fn reference_key_id_with_list(d: &KeyDesc, list: Option<&[&str]>) -> String {
    let mut members = vec![
        ("keytype".to_string(), J::Str(d.keytype.into())),
        ("scheme".to_string(), J::Str(d.scheme.into())),
        ("keyval".to_string(), J::Obj(vec![("public".to_string(), J::Str(d.public.clone()))])),
    ];
    if let Some(l) = list {
        members.push(("keyid_hash_algorithms".to_string(), J::Arr(l.iter().map(|x| J::Str(x.to_string())).collect())));
    }
    sha256_hex(&olpc(&J::Obj(members)).unwrap())
}

pub fn ec_point(idx: usize) -> Vec<u8> {
    let rng = ring::rand::SystemRandom::new();
    let kp = ring::signature::EcdsaKeyPair::from_pkcs8(
        &ring::signature::ECDSA_P256_SHA256_ASN1_SIGNING,
        &corpus_file(&format!("ecdsa-{}.pk8.der", idx % ECDSA_POOL)),
        &rng,
    )
    .expect("ec key");
    kp.public_key().as_ref().to_vec()
}

pub fn rsa_spki(idx: usize) -> Vec<u8> {
    corpus_file(&format!("{}.spki.der", RSA_POOL[idx % RSA_POOL.len()]))
}

pub fn describe(k: &KeySpec) -> KeyDesc {
    match k {
        KeySpec::Ed { seed, pkcs8 } => KeyDesc { keytype: "ed25519", scheme: "ed25519", hash_algs: *pkcs8, public: hex(&ed_public(*seed)) },
        KeySpec::Ec { idx } => KeyDesc { keytype: "ecdsa", scheme: "ecdsa-sha2-nistp256", hash_algs: true, public: hex(&ec_point(*idx)) },
        KeySpec::Rsa { idx, sha512 } => KeyDesc {
            keytype: "rsa",
            scheme: if *sha512 { "rsassa-pss-sha512" } else { "rsassa-pss-sha256" },
            hash_algs: true,
            public: pem_public(&rsa_spki(*idx)),
        },
    }
}

/// hex(sha256(olpc_cjson(description))) — the securesystemslib key-id formula.
pub fn reference_key_id_of(d: &KeyDesc) -> String {
    let mut members = vec![
        ("keytype".to_string(), J::Str(d.keytype.into())),
        ("scheme".to_string(), J::Str(d.scheme.into())),
        ("keyval".to_string(), J::Obj(vec![("public".to_string(), J::Str(d.public.clone()))])),
    ];
    if d.hash_algs {
        members.push(("keyid_hash_algorithms".to_string(), J::Arr(vec![J::Str("sha256".into()), J::Str("sha512".into())])));
    }
    sha256_hex(&olpc(&J::Obj(members)).unwrap())
}

pub fn reference_key_id(k: &KeySpec) -> String {
    reference_key_id_of(&describe(k))
}

/// (key id, wire document) of a key as it appears in a layout's key table.
pub fn key_wire(k: &KeySpec) -> (String, Value) {
    let d = describe(k);
    let id = reference_key_id_of(&d);
    let mut doc = json!({
        "keyid": id,
        "keytype": d.keytype,
        "scheme": d.scheme,
        "keyval": {"private": "", "public": d.public},
    });
    if d.hash_algs {
        doc["keyid_hash_algorithms"] = json!(["sha256", "sha512"]);
    }
    (id, doc)
}

// ---- DER --------------------------------------------------------------

pub fn der_len(n: usize) -> Vec<u8> {
    if n < 128 {
        vec![n as u8]
    } else {
        let bytes = n.to_be_bytes();
        let first = bytes.iter().position(|b| *b != 0).unwrap();
        let mut v = vec![0x80 | (bytes.len() - first) as u8];
        v.extend_from_slice(&bytes[first..]);
        v
    }
}

pub fn der_tlv(tag: u8, content: &[u8]) -> Vec<u8> {
    let mut v = vec![tag];
    v.extend(der_len(content.len()));
    v.extend_from_slice(content);
    v
}

pub const OID_RSA: &[u8] = &[0x2a, 0x86, 0x48, 0x86, 0xf7, 0x0d, 0x01, 0x01, 0x01];
pub const OID_ED25519: &[u8] = &[0x2b, 0x65, 0x70];
pub const OID_EC: &[u8] = &[0x2a, 0x86, 0x48, 0xce, 0x3d, 0x02, 0x01];
pub const OID_P256: &[u8] = &[0x2a, 0x86, 0x48, 0xce, 0x3d, 0x03, 0x01, 0x07];

fn spki(alg: Vec<u8>, key: &[u8]) -> Vec<u8> {
    let mut bits = vec![0u8];
    bits.extend_from_slice(key);
    let mut body = der_tlv(0x30, &alg);
    body.extend(der_tlv(0x03, &bits));
    der_tlv(0x30, &body)
}

/// RFC 8410: id-Ed25519, parameters absent.
pub fn spki_ed25519(public: &[u8]) -> Vec<u8> {
    spki(der_tlv(0x06, OID_ED25519), public)
}

/// RFC 5480: id-ecPublicKey + namedCurve prime256v1.
pub fn spki_p256(point: &[u8]) -> Vec<u8> {
    let mut alg = der_tlv(0x06, OID_EC);
    alg.extend(der_tlv(0x06, OID_P256));
    spki(alg, point)
}

/// RFC 3279: rsaEncryption + NULL; `pkcs1` is the DER RSAPublicKey.
pub fn spki_rsa(pkcs1: &[u8]) -> Vec<u8> {
    let mut alg = der_tlv(0x06, OID_RSA);
    alg.extend_from_slice(&[0x05, 0x00]);
    spki(alg, pkcs1)
}

/// DER RSAPublicKey from big-endian modulus and exponent.
pub fn pkcs1(n: &[u8], e: &[u8]) -> Vec<u8> {
    fn int(b: &[u8]) -> Vec<u8> {
        let mut v: Vec<u8> = b.iter().cloned().skip_while(|x| *x == 0).collect();
        if v.is_empty() {
            v.push(0);
        }
        if v[0] & 0x80 != 0 {
            v.insert(0, 0);
        }
        der_tlv(0x02, &v)
    }
    let mut body = int(n);
    body.extend(int(e));
    der_tlv(0x30, &body)
}

pub fn selftest() -> Result<(), String> {
    if base64(b"foobar") != "Zm9vYmFy" || base64(b"fo") != "Zm8=" || base64(b"f") != "Zg==" {
        return Err("base64".into());
    }
    // DER writers against the OpenSSL-made corpus
    let root = crate::verif_root().join("corpus").join("spki");
    for i in 0..3 {
        let want = std::fs::read(root.join(format!("ecdsa-{}.spki.der", i))).map_err(|e| e.to_string())?;
        if spki_p256(&ec_point(i)) != want {
            return Err(format!("spki_p256 differs from OpenSSL for key {}", i));
        }
        let ed = std::fs::read(root.join(format!("ed25519-openssl-{}.spki.der", i))).map_err(|e| e.to_string())?;
        if spki_ed25519(&ed[ed.len() - 32..]) != ed {
            return Err("spki_ed25519 differs from OpenSSL".into());
        }
    }
    for (i, name) in RSA_POOL.iter().enumerate() {
        let want = std::fs::read(root.join(format!("{}.spki.der", name))).map_err(|e| e.to_string())?;
        // PKCS#1 body = bit string contents: find it by re-wrapping
        let inner = &want[want.len() - pkcs1_len(&want)..];
        if spki_rsa(inner) != want {
            return Err(format!("spki_rsa differs from OpenSSL for {}", name));
        }
        let _ = i;
    }
    // the searched-for key pairs: different ids, same first eight characters (reference formula)
    for i in 0..4u8 {
        let (p, q) = crate::gen::keys::collider_pair(i);
        let (a, b) = (reference_key_id(&p), reference_key_id(&q));
        if a == b || a[..8] != b[..8] {
            return Err(format!("collider pair {} does not collide on the short id: {} {}", i, a, b));
        }
    }
    // key-id formula against the Python-made fixtures in the repository
    let alice = std::fs::read_to_string("/repo/tests/test_verifylib/workdir/alice.pub").map_err(|e| e.to_string())?;
    let d = KeyDesc { keytype: "rsa", scheme: "rsassa-pss-sha256", hash_algs: true, public: alice.trim().to_string() };
    let id = reference_key_id_of(&d);
    if id != "556caebdc0877eed53d419b60eddb1e57fa773e4e31d70698b588f3e9cc48b35" {
        return Err(format!("reference key id formula does not reproduce the Python fixture id: {}", id));
    }
    Ok(())
}

/// length of the trailing RSAPublicKey SEQUENCE inside an RSA SPKI
fn pkcs1_len(spki: &[u8]) -> usize {
    // the RSAPublicKey starts after the BIT STRING header "03 82 xx xx 00" / "03 81 xx 00"
    for i in 0..spki.len().saturating_sub(4) {
        if spki[i] == 0x03 {
            let (hl, l) = if spki[i + 1] == 0x82 {
                (4, ((spki[i + 2] as usize) << 8) | spki[i + 3] as usize)
            } else if spki[i + 1] == 0x81 {
                (3, spki[i + 2] as usize)
            } else {
                continue;
            };
            if i + hl + l == spki.len() && spki[i + hl] == 0 {
                return l - 1;
            }
        }
    }
    0
}
