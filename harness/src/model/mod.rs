pub mod cjson;
pub mod keyid;
pub mod rules;
pub mod sha2;
