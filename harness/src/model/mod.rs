pub mod cjson;
pub mod keyid;
pub mod rules;
