pub mod cjson;
pub mod keyid;
