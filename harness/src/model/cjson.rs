//! Reference canonical-JSON models, independent of the library under test.
//!
//! * `J`            – a plain JSON value model used by generators and oracles
//! * `olpc`         – OLPC canonical JSON / securesystemslib `encode_canonical`
//! * `scan_canonical` – strict scanner: valid JSON, no insignificant whitespace,
//!   members strictly increasing by code point, integers only; decodes to `J`

use serde::{Deserialize, Serialize};

#[derive(Clone, Debug, PartialEq, Eq, Serialize, Deserialize)]
pub enum J {
    Null,
    Bool(bool),
    /// canonical decimal text of an integer in i64::MIN ..= u64::MAX
    Int(String),
    /// literal JSON number text that is not a canonical in-range integer (floats, exponents, huge)
    Num(String),
    Str(String),
    Arr(Vec<J>),
    /// members with distinct names, in generation order
    Obj(Vec<(String, J)>),
}

impl J {
    pub fn int(v: i128) -> J {
        J::Int(v.to_string())
    }
    pub fn has_num(&self) -> bool {
        match self {
            J::Num(_) => true,
            J::Arr(a) => a.iter().any(|x| x.has_num()),
            J::Obj(o) => o.iter().any(|(_, x)| x.has_num()),
            _ => false,
        }
    }
    pub fn depth(&self) -> usize {
        match self {
            J::Arr(a) => 1 + a.iter().map(|x| x.depth()).max().unwrap_or(0),
            J::Obj(o) => 1 + o.iter().map(|(_, x)| x.depth()).max().unwrap_or(0),
            _ => 0,
        }
    }
    /// Order-insensitive equality on objects.
    pub fn same(&self, other: &J) -> bool {
        match (self, other) {
            (J::Arr(a), J::Arr(b)) => a.len() == b.len() && a.iter().zip(b).all(|(x, y)| x.same(y)),
            (J::Obj(a), J::Obj(b)) => {
                a.len() == b.len()
                    && a.iter().all(|(k, v)| b.iter().any(|(k2, v2)| k == k2 && v.same(v2)))
            }
            (a, b) => a == b,
        }
    }
    pub fn from_value(v: &serde_json::Value) -> J {
        use serde_json::Value as V;
        match v {
            V::Null => J::Null,
            V::Bool(b) => J::Bool(*b),
            V::Number(n) => {
                if let Some(i) = n.as_i64() {
                    J::Int(i.to_string())
                } else if let Some(u) = n.as_u64() {
                    J::Int(u.to_string())
                } else {
                    J::Num(n.to_string())
                }
            }
            V::String(s) => J::Str(s.clone()),
            V::Array(a) => J::Arr(a.iter().map(J::from_value).collect()),
            V::Object(o) => J::Obj(o.iter().map(|(k, v)| (k.clone(), J::from_value(v))).collect()),
        }
    }
    /// Conversion to serde_json (only for integer-only values; Num is parsed as f64 text).
    pub fn to_value(&self) -> serde_json::Value {
        use serde_json::Value as V;
        match self {
            J::Null => V::Null,
            J::Bool(b) => V::Bool(*b),
            J::Int(s) => {
                if let Ok(i) = s.parse::<i64>() {
                    V::from(i)
                } else {
                    V::from(s.parse::<u64>().expect("int in range"))
                }
            }
            J::Num(s) => serde_json::from_str(s).unwrap_or(V::Null),
            J::Str(s) => V::String(s.clone()),
            J::Arr(a) => V::Array(a.iter().map(|x| x.to_value()).collect()),
            J::Obj(o) => V::Object(o.iter().map(|(k, v)| (k.clone(), v.to_value())).collect()),
        }
    }
}

fn olpc_str(s: &str, out: &mut Vec<u8>) {
    out.push(b'"');
    for b in s.bytes() {
        match b {
            b'\\' => out.extend_from_slice(b"\\\\"),
            b'"' => out.extend_from_slice(b"\\\""),
            _ => out.push(b),
        }
    }
    out.push(b'"');
}

/// OLPC canonical JSON (what the in-toto reference implementation signs).
/// Err for non-integer numbers.
pub fn olpc(v: &J) -> Result<Vec<u8>, String> {
    let mut out = vec![];
    olpc_into(v, &mut out)?;
    Ok(out)
}

fn olpc_into(v: &J, out: &mut Vec<u8>) -> Result<(), String> {
    match v {
        J::Null => out.extend_from_slice(b"null"),
        J::Bool(true) => out.extend_from_slice(b"true"),
        J::Bool(false) => out.extend_from_slice(b"false"),
        J::Int(s) => out.extend_from_slice(s.as_bytes()),
        J::Num(s) => return Err(format!("non-integer number {}", s)),
        J::Str(s) => olpc_str(s, out),
        J::Arr(a) => {
            out.push(b'[');
            for (i, x) in a.iter().enumerate() {
                if i > 0 {
                    out.push(b',');
                }
                olpc_into(x, out)?;
            }
            out.push(b']');
        }
        J::Obj(o) => {
            let mut members: Vec<&(String, J)> = o.iter().collect();
            // Python sorts str keys by code point; UTF-8 byte order is the same order
            members.sort_by(|a, b| a.0.chars().cmp(b.0.chars()));
            out.push(b'{');
            for (i, (k, x)) in members.into_iter().enumerate() {
                if i > 0 {
                    out.push(b',');
                }
                olpc_str(k, out);
                out.push(b':');
                olpc_into(x, out)?;
            }
            out.push(b'}');
        }
    }
    Ok(())
}

pub fn olpc_value(v: &serde_json::Value) -> Result<Vec<u8>, String> {
    olpc(&J::from_value(v))
}

// ---------------------------------------------------------------------------
// strict scanner for canonical output

pub struct Scan<'a> {
    b: &'a [u8],
    i: usize,
}

impl<'a> Scan<'a> {
    fn peek(&self) -> Option<u8> {
        self.b.get(self.i).copied()
    }
    fn eat(&mut self, c: u8) -> Result<(), String> {
        if self.peek() == Some(c) {
            self.i += 1;
            Ok(())
        } else {
            Err(format!("expected '{}' at offset {}", c as char, self.i))
        }
    }
    fn lit(&mut self, s: &[u8]) -> Result<(), String> {
        if self.b[self.i..].starts_with(s) {
            self.i += s.len();
            Ok(())
        } else {
            Err(format!("bad literal at offset {}", self.i))
        }
    }
    fn hex4(&mut self) -> Result<u32, String> {
        if self.i + 4 > self.b.len() {
            return Err("short \\u escape".into());
        }
        let s = std::str::from_utf8(&self.b[self.i..self.i + 4]).map_err(|_| "bad \\u escape")?;
        let v = u32::from_str_radix(s, 16).map_err(|_| format!("bad hex in \\u escape at {}", self.i))?;
        if !s.bytes().all(|c| c.is_ascii_hexdigit()) {
            return Err("bad hex".into());
        }
        self.i += 4;
        Ok(v)
    }
    fn string(&mut self) -> Result<String, String> {
        self.eat(b'"')?;
        let mut out: Vec<u8> = vec![];
        loop {
            let c = self.peek().ok_or("unterminated string")?;
            self.i += 1;
            match c {
                b'"' => break,
                b'\\' => {
                    let e = self.peek().ok_or("dangling backslash")?;
                    self.i += 1;
                    let ch = match e {
                        b'"' => '"',
                        b'\\' => '\\',
                        b'/' => '/',
                        b'b' => '\u{8}',
                        b'f' => '\u{c}',
                        b'n' => '\n',
                        b'r' => '\r',
                        b't' => '\t',
                        b'u' => {
                            let hi = self.hex4()?;
                            if (0xd800..0xdc00).contains(&hi) {
                                self.lit(b"\\u")?;
                                let lo = self.hex4()?;
                                if !(0xdc00..0xe000).contains(&lo) {
                                    return Err("bad low surrogate".into());
                                }
                                char::from_u32(0x10000 + ((hi - 0xd800) << 10) + (lo - 0xdc00)).ok_or("bad pair")?
                            } else {
                                char::from_u32(hi).ok_or("lone surrogate")?
                            }
                        }
                        _ => return Err(format!("bad escape \\{}", e as char)),
                    };
                    let mut buf = [0u8; 4];
                    out.extend_from_slice(ch.encode_utf8(&mut buf).as_bytes());
                }
                0x00..=0x1f => return Err(format!("raw control character 0x{:02x} in string (invalid JSON)", c)),
                _ => out.push(c),
            }
        }
        String::from_utf8(out).map_err(|_| "invalid UTF-8 in string".to_string())
    }
    fn value(&mut self, depth: usize) -> Result<J, String> {
        if depth > 512 {
            return Err("too deep".into());
        }
        match self.peek().ok_or("unexpected end")? {
            b'n' => self.lit(b"null").map(|_| J::Null),
            b't' => self.lit(b"true").map(|_| J::Bool(true)),
            b'f' => self.lit(b"false").map(|_| J::Bool(false)),
            b'"' => self.string().map(J::Str),
            b'[' => {
                self.i += 1;
                let mut v = vec![];
                if self.peek() == Some(b']') {
                    self.i += 1;
                    return Ok(J::Arr(v));
                }
                loop {
                    v.push(self.value(depth + 1)?);
                    match self.peek() {
                        Some(b',') => self.i += 1,
                        Some(b']') => {
                            self.i += 1;
                            return Ok(J::Arr(v));
                        }
                        _ => return Err(format!("expected , or ] at {}", self.i)),
                    }
                }
            }
            b'{' => {
                self.i += 1;
                let mut v: Vec<(String, J)> = vec![];
                if self.peek() == Some(b'}') {
                    self.i += 1;
                    return Ok(J::Obj(v));
                }
                loop {
                    let k = self.string()?;
                    if let Some((prev, _)) = v.last() {
                        if prev.chars().cmp(k.chars()) != std::cmp::Ordering::Less {
                            return Err(format!("members not strictly increasing by code point: {:?} then {:?}", prev, k));
                        }
                    }
                    self.eat(b':')?;
                    let x = self.value(depth + 1)?;
                    v.push((k, x));
                    match self.peek() {
                        Some(b',') => self.i += 1,
                        Some(b'}') => {
                            self.i += 1;
                            return Ok(J::Obj(v));
                        }
                        _ => return Err(format!("expected , or }} at {}", self.i)),
                    }
                }
            }
            b'-' | b'0'..=b'9' => {
                let start = self.i;
                if self.peek() == Some(b'-') {
                    self.i += 1;
                }
                let ds = self.i;
                while matches!(self.peek(), Some(b'0'..=b'9')) {
                    self.i += 1;
                }
                if self.i == ds {
                    return Err("digits expected".into());
                }
                if self.b[ds] == b'0' && self.i - ds > 1 {
                    return Err("leading zero".into());
                }
                if matches!(self.peek(), Some(b'.') | Some(b'e') | Some(b'E')) {
                    return Err("non-integer number in canonical output".into());
                }
                let txt = std::str::from_utf8(&self.b[start..self.i]).unwrap();
                if txt == "-0" {
                    return Err("negative zero".into());
                }
                let v: i128 = txt.parse().map_err(|_| "integer too long")?;
                if v < i64::MIN as i128 || v > u64::MAX as i128 {
                    return Err("integer out of 64-bit range".into());
                }
                Ok(J::Int(txt.to_string()))
            }
            c => Err(format!("unexpected byte 0x{:02x} at {} (whitespace is not allowed)", c, self.i)),
        }
    }
}

/// Strictly scan canonical JSON output.
pub fn scan_canonical(bytes: &[u8]) -> Result<J, String> {
    let mut s = Scan { b: bytes, i: 0 };
    let v = s.value(0)?;
    if s.i != bytes.len() {
        return Err(format!("trailing bytes at {}", s.i));
    }
    Ok(v)
}

pub fn selftest() -> Result<(), String> {
    // OLPC examples (from the securesystemslib test-suite semantics)
    let v = J::Obj(vec![
        ("b".into(), J::Arr(vec![J::int(1), J::Null, J::Bool(true)])),
        ("a".into(), J::Str("x\"y\\z\n".into())),
    ]);
    let got = olpc(&v)?;
    let want = b"{\"a\":\"x\\\"y\\\\z\n\",\"b\":[1,null,true]}".to_vec();
    if got != want {
        return Err(format!("olpc selftest: {:?}", String::from_utf8_lossy(&got)));
    }
    let sc = scan_canonical(br#"{"a":"x\"y\\z\n","b":[1,null,true]}"#)?;
    if !sc.same(&v) {
        return Err("scan selftest".into());
    }
    for bad in [&b"{\"b\":1,\"a\":2}"[..], b"{\"a\": 1}", b"[1, 2]", b"1.0", b"1e2", b"01", b"-0", b"{\"a\":1,\"a\":2}", b"\"\n\"", b" 1"] {
        if scan_canonical(bad).is_ok() {
            return Err(format!("scanner accepted {:?}", String::from_utf8_lossy(bad)));
        }
    }
    Ok(())
}
