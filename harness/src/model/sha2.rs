//! Plain SHA-256 / SHA-512 (FIPS 180-4), independent of the library under test
//! and of ring; validated against NIST vectors (and ring) by `selftest`.

const K256: [u32; 64] = [
    0x428a2f98, 0x71374491, 0xb5c0fbcf, 0xe9b5dba5, 0x3956c25b, 0x59f111f1, 0x923f82a4, 0xab1c5ed5, 0xd807aa98, 0x12835b01, 0x243185be, 0x550c7dc3,
    0x72be5d74, 0x80deb1fe, 0x9bdc06a7, 0xc19bf174, 0xe49b69c1, 0xefbe4786, 0x0fc19dc6, 0x240ca1cc, 0x2de92c6f, 0x4a7484aa, 0x5cb0a9dc, 0x76f988da,
    0x983e5152, 0xa831c66d, 0xb00327c8, 0xbf597fc7, 0xc6e00bf3, 0xd5a79147, 0x06ca6351, 0x14292967, 0x27b70a85, 0x2e1b2138, 0x4d2c6dfc, 0x53380d13,
    0x650a7354, 0x766a0abb, 0x81c2c92e, 0x92722c85, 0xa2bfe8a1, 0xa81a664b, 0xc24b8b70, 0xc76c51a3, 0xd192e819, 0xd6990624, 0xf40e3585, 0x106aa070,
    0x19a4c116, 0x1e376c08, 0x2748774c, 0x34b0bcb5, 0x391c0cb3, 0x4ed8aa4a, 0x5b9cca4f, 0x682e6ff3, 0x748f82ee, 0x78a5636f, 0x84c87814, 0x8cc70208,
    0x90befffa, 0xa4506ceb, 0xbef9a3f7, 0xc67178f2,
];

pub fn sha256(data: &[u8]) -> [u8; 32] {
    let mut h: [u32; 8] = [0x6a09e667, 0xbb67ae85, 0x3c6ef372, 0xa54ff53a, 0x510e527f, 0x9b05688c, 0x1f83d9ab, 0x5be0cd19];
    let mut msg = data.to_vec();
    let bitlen = (data.len() as u64).wrapping_mul(8);
    msg.push(0x80);
    while msg.len() % 64 != 56 {
        msg.push(0);
    }
    msg.extend_from_slice(&bitlen.to_be_bytes());
    for block in msg.chunks(64) {
        let mut w = [0u32; 64];
        for i in 0..16 {
            w[i] = u32::from_be_bytes([block[4 * i], block[4 * i + 1], block[4 * i + 2], block[4 * i + 3]]);
        }
        for i in 16..64 {
            let s0 = w[i - 15].rotate_right(7) ^ w[i - 15].rotate_right(18) ^ (w[i - 15] >> 3);
            let s1 = w[i - 2].rotate_right(17) ^ w[i - 2].rotate_right(19) ^ (w[i - 2] >> 10);
            w[i] = w[i - 16].wrapping_add(s0).wrapping_add(w[i - 7]).wrapping_add(s1);
        }
        let mut v = h;
        for i in 0..64 {
            let s1 = v[4].rotate_right(6) ^ v[4].rotate_right(11) ^ v[4].rotate_right(25);
            let ch = (v[4] & v[5]) ^ (!v[4] & v[6]);
            let t1 = v[7].wrapping_add(s1).wrapping_add(ch).wrapping_add(K256[i]).wrapping_add(w[i]);
            let s0 = v[0].rotate_right(2) ^ v[0].rotate_right(13) ^ v[0].rotate_right(22);
            let maj = (v[0] & v[1]) ^ (v[0] & v[2]) ^ (v[1] & v[2]);
            let t2 = s0.wrapping_add(maj);
            v[7] = v[6];
            v[6] = v[5];
            v[5] = v[4];
            v[4] = v[3].wrapping_add(t1);
            v[3] = v[2];
            v[2] = v[1];
            v[1] = v[0];
            v[0] = t1.wrapping_add(t2);
        }
        for i in 0..8 {
            h[i] = h[i].wrapping_add(v[i]);
        }
    }
    let mut out = [0u8; 32];
    for i in 0..8 {
        out[4 * i..4 * i + 4].copy_from_slice(&h[i].to_be_bytes());
    }
    out
}

/// The SHA-512 round constants: first 64 bits of the fractional parts of the cube roots of
/// the first 80 primes, computed with integer arithmetic (validated by the NIST vectors below).
fn k512() -> [u64; 80] {
    let mut primes = vec![];
    let mut n = 2u64;
    while primes.len() < 80 {
        if primes.iter().all(|p| n % p != 0) {
            primes.push(n);
        }
        n += 1;
    }
    let mut out = [0u64; 80];
    for (i, p) in primes.iter().enumerate() {
        // floor(cbrt(p) * 2^64) mod 2^64 via integer cube root of p * 2^192
        out[i] = icbrt_frac(*p);
    }
    out
}

/// fractional 64 bits of the cube root of p: bitwise construction of floor(cbrt(p * 2^192))
fn icbrt_frac(p: u64) -> u64 {
    // x = floor(cbrt(p << 192)); x has at most 3 + 64 bits. Use 256-bit arithmetic by hand (u128 pieces).
    // binary search on x in [0, 2^67)
    let mut lo: u128 = 0;
    let mut hi: u128 = 1u128 << 67;
    while lo + 1 < hi {
        let mid = (lo + hi) / 2;
        if cube_le(mid, p) {
            lo = mid;
        } else {
            hi = mid;
        }
    }
    (lo & 0xffff_ffff_ffff_ffff) as u64
}

/// mid^3 <= p * 2^192 ?   (mid < 2^67, so mid^3 < 2^201: needs 256-bit compare)
fn cube_le(mid: u128, p: u64) -> bool {
    // represent numbers as little-endian u64 limbs
    fn mul(a: &[u64], b: &[u64]) -> Vec<u64> {
        let mut out = vec![0u64; a.len() + b.len()];
        for (i, x) in a.iter().enumerate() {
            let mut carry = 0u128;
            for (j, y) in b.iter().enumerate() {
                let cur = out[i + j] as u128 + (*x as u128) * (*y as u128) + carry;
                out[i + j] = cur as u64;
                carry = cur >> 64;
            }
            let mut k = i + b.len();
            while carry > 0 {
                let cur = out[k] as u128 + carry;
                out[k] = cur as u64;
                carry = cur >> 64;
                k += 1;
            }
        }
        out
    }
    let m = [mid as u64, (mid >> 64) as u64];
    let sq = mul(&m, &m);
    let cu = mul(&sq, &m); // 6 limbs
    let rhs = [0u64, 0, 0, p, 0, 0]; // p << 192
    for i in (0..6).rev() {
        if cu[i] != rhs[i] {
            return cu[i] < rhs[i];
        }
    }
    true
}

pub fn sha512(data: &[u8]) -> [u8; 64] {
    let k = k512();
    let mut h: [u64; 8] = [
        0x6a09e667f3bcc908, 0xbb67ae8584caa73b, 0x3c6ef372fe94f82b, 0xa54ff53a5f1d36f1, 0x510e527fade682d1, 0x9b05688c2b3e6c1f, 0x1f83d9abfb41bd6b, 0x5be0cd19137e2179,
    ];
    let mut msg = data.to_vec();
    let bitlen = (data.len() as u128).wrapping_mul(8);
    msg.push(0x80);
    while msg.len() % 128 != 112 {
        msg.push(0);
    }
    msg.extend_from_slice(&bitlen.to_be_bytes());
    for block in msg.chunks(128) {
        let mut w = [0u64; 80];
        for i in 0..16 {
            let mut b = [0u8; 8];
            b.copy_from_slice(&block[8 * i..8 * i + 8]);
            w[i] = u64::from_be_bytes(b);
        }
        for i in 16..80 {
            let s0 = w[i - 15].rotate_right(1) ^ w[i - 15].rotate_right(8) ^ (w[i - 15] >> 7);
            let s1 = w[i - 2].rotate_right(19) ^ w[i - 2].rotate_right(61) ^ (w[i - 2] >> 6);
            w[i] = w[i - 16].wrapping_add(s0).wrapping_add(w[i - 7]).wrapping_add(s1);
        }
        let mut v = h;
        for i in 0..80 {
            let s1 = v[4].rotate_right(14) ^ v[4].rotate_right(18) ^ v[4].rotate_right(41);
            let ch = (v[4] & v[5]) ^ (!v[4] & v[6]);
            let t1 = v[7].wrapping_add(s1).wrapping_add(ch).wrapping_add(k[i]).wrapping_add(w[i]);
            let s0 = v[0].rotate_right(28) ^ v[0].rotate_right(34) ^ v[0].rotate_right(39);
            let maj = (v[0] & v[1]) ^ (v[0] & v[2]) ^ (v[1] & v[2]);
            let t2 = s0.wrapping_add(maj);
            v[7] = v[6];
            v[6] = v[5];
            v[5] = v[4];
            v[4] = v[3].wrapping_add(t1);
            v[3] = v[2];
            v[2] = v[1];
            v[1] = v[0];
            v[0] = t1.wrapping_add(t2);
        }
        for i in 0..8 {
            h[i] = h[i].wrapping_add(v[i]);
        }
    }
    let mut out = [0u8; 64];
    for i in 0..8 {
        out[8 * i..8 * i + 8].copy_from_slice(&h[i].to_be_bytes());
    }
    out
}

pub fn selftest() -> Result<(), String> {
    let hex = |b: &[u8]| b.iter().map(|x| format!("{:02x}", x)).collect::<String>();
    if hex(&sha256(b"abc")) != "ba7816bf8f01cfea414140de5dae2223b00361a396177a9cb410ff61f20015ad" {
        return Err("sha256(abc)".into());
    }
    if hex(&sha256(b"")) != "e3b0c44298fc1c149afbf4c8996fb92427ae41e4649b934ca495991b7852b855" {
        return Err("sha256(empty)".into());
    }
    if hex(&sha256(b"abcdbcdecdefdefgefghfghighijhijkijkljklmklmnlmnomnopnopq")) != "248d6a61d20638b8e5c026930c3e6039a33ce45964ff2167f6ecedd419db06c1" {
        return Err("sha256(448 bits)".into());
    }
    if hex(&sha512(b"abc")) != "ddaf35a193617abacc417349ae20413112e6fa4e89a97ea20a9eeee64b55d39a2192992a274fc1a836ba3c23a3feebbd454d4423643ce80e2a9ac94fa54ca49f" {
        return Err(format!("sha512(abc) = {}", hex(&sha512(b"abc"))));
    }
    if hex(&sha512(b"")) != "cf83e1357eefb8bdf1542850d66d8007d620e4050b5715dc83f4a921d36ce9ce47d0d13c5d85f2b0ff8318d2877eec2f63b931bd47417a81a538327af927da3e" {
        return Err("sha512(empty)".into());
    }
    // cross-check with ring on sizes around block boundaries
    for n in [1usize, 55, 56, 63, 64, 65, 111, 112, 127, 128, 129, 1023, 1024, 1025, 4096, 70000] {
        let data: Vec<u8> = (0..n).map(|i| (i * 31 % 251) as u8).collect();
        if sha256(&data)[..] != ring::digest::digest(&ring::digest::SHA256, &data).as_ref()[..] {
            return Err(format!("sha256 differs from ring at {}", n));
        }
        if sha512(&data)[..] != ring::digest::digest(&ring::digest::SHA512, &data).as_ref()[..] {
            return Err(format!("sha512 differs from ring at {}", n));
        }
    }
    Ok(())
}
