//! Reference artifact-rule engine transcribed from the in-toto specification
//! (v0.9 §4.3.3) and the reference implementation's verify_item_rules /
//! verify_match_rule, on normalised relative paths and portable glob syntax.

use std::collections::{BTreeMap, BTreeSet};

use crate::gen::meta::{Artifacts, Digests, RuleSpec};

/// fnmatch on the portable subset: `*` any run (including `/`), `?` any one
/// character (including `/`), `[abc]`, `[a-c]`, `[!abc]`; everything else literal.
/// Returns None when the pattern is outside the subset (unclosed bracket).
pub fn fnmatch(pattern: &str, s: &str) -> Option<bool> {
    let p: Vec<char> = pattern.chars().collect();
    let t: Vec<char> = s.chars().collect();
    fn class_end(p: &[char], i: usize) -> Option<usize> {
        // p[i] == '[' ; find the closing bracket (a ']' first in the set is literal)
        let mut j = i + 1;
        if j < p.len() && p[j] == '!' {
            j += 1;
        }
        if j < p.len() && p[j] == ']' {
            j += 1;
        }
        while j < p.len() && p[j] != ']' {
            j += 1;
        }
        if j < p.len() {
            Some(j)
        } else {
            None
        }
    }
    fn in_class(set: &[char], c: char) -> bool {
        let (neg, set) = if set.first() == Some(&'!') { (true, &set[1..]) } else { (false, set) };
        let mut hit = false;
        let mut i = 0;
        while i < set.len() {
            if i + 2 < set.len() && set[i + 1] == '-' {
                if set[i] <= c && c <= set[i + 2] {
                    hit = true;
                }
                i += 3;
            } else {
                if set[i] == c {
                    hit = true;
                }
                i += 1;
            }
        }
        hit != neg
    }
    fn go(p: &[char], t: &[char]) -> Option<bool> {
        if p.is_empty() {
            return Some(t.is_empty());
        }
        match p[0] {
            '*' => {
                for k in 0..=t.len() {
                    if go(&p[1..], &t[k..])? {
                        return Some(true);
                    }
                }
                Some(false)
            }
            '?' => {
                if t.is_empty() {
                    Some(false)
                } else {
                    go(&p[1..], &t[1..])
                }
            }
            '[' => {
                let end = class_end(p, 0)?;
                if t.is_empty() {
                    // still validate the rest of the pattern
                    go(&p[end + 1..], &[])?;
                    return Some(false);
                }
                if in_class(&p[1..end], t[0]) {
                    go(&p[end + 1..], &t[1..])
                } else {
                    // validate remainder for bracket errors
                    validate(&p[end + 1..])?;
                    Some(false)
                }
            }
            c => {
                if !t.is_empty() && t[0] == c {
                    go(&p[1..], &t[1..])
                } else {
                    validate(&p[1..])?;
                    Some(false)
                }
            }
        }
    }
    fn validate(p: &[char]) -> Option<()> {
        let mut i = 0;
        while i < p.len() {
            if p[i] == '[' {
                i = class_end(p, i)? + 1;
            } else {
                i += 1;
            }
        }
        Some(())
    }
    validate(&p)?;
    go(&p, &t)
}

/// Patterns the matcher in use cannot interpret: an unclosed bracket, or a run of
/// two or more `*` that is not exactly `**` standing as a whole path component.
pub fn glob_uninterpretable(p: &str) -> bool {
    if fnmatch(p, "").is_none() {
        return true;
    }
    let c: Vec<char> = p.chars().collect();
    let mut i = 0;
    while i < c.len() {
        if c[i] == '[' {
            // skip the class
            let mut j = i + 1;
            if j < c.len() && c[j] == '!' {
                j += 1;
            }
            if j < c.len() && c[j] == ']' {
                j += 1;
            }
            while j < c.len() && c[j] != ']' {
                j += 1;
            }
            i = j + 1;
            continue;
        }
        if c[i] == '*' {
            let mut j = i;
            while j < c.len() && c[j] == '*' {
                j += 1;
            }
            let run = j - i;
            if run >= 2 {
                let before_ok = i == 0 || c[i - 1] == '/';
                let after_ok = j == c.len() || c[j] == '/';
                if run > 2 || !before_ok || !after_ok {
                    return true;
                }
            }
            i = j;
            continue;
        }
        i += 1;
    }
    false
}

#[derive(Clone, Debug, PartialEq, Eq)]
pub struct LinkArtifacts {
    pub materials: Artifacts,
    pub products: Artifacts,
}

#[derive(Clone, Debug, PartialEq, Eq)]
pub enum Verdict {
    Accept,
    Reject(String),
    /// the statement does not say (e.g. an uninterpretable DISALLOW pattern that is never evaluated)
    Unspecified(String),
}

impl Verdict {
    pub fn is_accept(&self) -> bool {
        matches!(self, Verdict::Accept)
    }
}

/// The specification's rule processing for one item (step or inspection).
/// `links` maps item names to their (reduced) link evidence.
pub fn spec_rules(
    name: &str,
    expected_materials: &[RuleSpec],
    expected_products: &[RuleSpec],
    links: &BTreeMap<String, LinkArtifacts>,
) -> Verdict {
    let Some(link) = links.get(name) else {
        return Verdict::Reject("no evidence for the item".into());
    };
    let mpaths: BTreeSet<&String> = link.materials.keys().collect();
    let ppaths: BTreeSet<&String> = link.products.keys().collect();
    let created: BTreeSet<&String> = ppaths.difference(&mpaths).cloned().collect();
    let deleted: BTreeSet<&String> = mpaths.difference(&ppaths).cloned().collect();
    let modified: BTreeSet<&String> =
        mpaths.intersection(&ppaths).filter(|p| link.materials[**p] != link.products[**p]).cloned().collect();

    for (rules, own, side) in [(expected_materials, &link.materials, "materials"), (expected_products, &link.products, "products")] {
        let mut queue: BTreeSet<&String> = own.keys().collect();
        for (ri, rule) in rules.iter().enumerate() {
            let mut filtered: BTreeSet<&String> = BTreeSet::new();
            let mut uninterpretable = false;
            for p in &queue {
                match fnmatch(rule.pattern(), p) {
                    Some(true) => {
                        filtered.insert(*p);
                    }
                    Some(false) => {}
                    None => uninterpretable = true,
                }
            }
            if fnmatch(rule.pattern(), "").is_none() {
                uninterpretable = true;
            }
            let consumed: BTreeSet<&String> = match rule {
                RuleSpec::Create(_) => filtered.intersection(&created).cloned().collect(),
                RuleSpec::Delete(_) => filtered.intersection(&deleted).cloned().collect(),
                RuleSpec::Modify(_) => filtered.intersection(&modified).cloned().collect(),
                RuleSpec::Allow(_) => filtered,
                RuleSpec::Require(p) => {
                    if !queue.contains(p) {
                        return Verdict::Reject(format!("{} rule {}: REQUIRE {:?} not in queue", side, ri, p));
                    }
                    BTreeSet::new()
                }
                RuleSpec::Disallow(p) => {
                    if uninterpretable || glob_uninterpretable(p) {
                        if queue.is_empty() {
                            return Verdict::Unspecified(format!("{} rule {}: uninterpretable DISALLOW pattern {:?} on an empty queue", side, ri, p));
                        }
                        return Verdict::Reject(format!("{} rule {}: DISALLOW pattern {:?} cannot be interpreted", side, ri, p));
                    }
                    if !filtered.is_empty() {
                        return Verdict::Reject(format!("{} rule {}: DISALLOW {:?} matches {:?}", side, ri, p, filtered));
                    }
                    BTreeSet::new()
                }
                RuleSpec::Match { pattern, in_src, products, in_dst, from } => {
                    let mut c = BTreeSet::new();
                    if let Some(dest) = links.get(from) {
                        let dest_art = if *products { &dest.products } else { &dest.materials };
                        for p in &queue {
                            let base: &str = match in_src {
                                Some(src) => match p.strip_prefix(&format!("{}/", src)) {
                                    Some(b) => b,
                                    None => continue,
                                },
                                None => p.as_str(),
                            };
                            if fnmatch(pattern, base) != Some(true) {
                                continue;
                            }
                            let q = match in_dst {
                                Some(d) => format!("{}/{}", d, base),
                                None => base.to_string(),
                            };
                            if let Some(dd) = dest_art.get(&q) {
                                let od: &Digests = &own[*p];
                                if od == dd {
                                    c.insert(*p);
                                }
                            }
                        }
                    }
                    c
                }
            };
            queue = queue.difference(&consumed).cloned().collect();
        }
    }
    Verdict::Accept
}

pub fn selftest() -> Result<(), String> {
    for (p, s, want) in [
        ("*", "a/b", Some(true)), ("*.py", "foo.py", Some(true)), ("*.py", "foo.pyc", Some(false)), ("?", "a", Some(true)), ("?", "ab", Some(false)),
        ("[ab]", "a", Some(true)), ("[!a]*", "abc", Some(false)), ("[!a]*", "bcd", Some(true)), ("[a-c]x", "bx", Some(true)), ("[", "a", None),
        ("a[", "b", None), ("src/*", "src/a/b", Some(true)), ("", "", Some(true)), ("a", "", Some(false)), ("foo", "foo", Some(true)), ("[]]", "]", Some(true)),
    ] {
        if fnmatch(p, s) != want {
            return Err(format!("fnmatch({:?},{:?}) = {:?}, want {:?}", p, s, fnmatch(p, s), want));
        }
    }
    // the demo supply chain of the repository fixtures (Python-made): every step and the inspection must be accepted
    let dir = std::path::Path::new("/repo/tests/test_verifylib");
    let layout: serde_json::Value = serde_json::from_str(&std::fs::read_to_string(dir.join("workdir/root.layout")).map_err(|e| e.to_string())?).map_err(|e| e.to_string())?;
    let mut links: BTreeMap<String, LinkArtifacts> = BTreeMap::new();
    for e in std::fs::read_dir(dir.join("links")).map_err(|e| e.to_string())?.flatten() {
        let v: serde_json::Value = serde_json::from_str(&std::fs::read_to_string(e.path()).map_err(|e| e.to_string())?).map_err(|e| e.to_string())?;
        let s = &v["signed"];
        if s["_type"] != "link" {
            continue;
        }
        let arts = |x: &serde_json::Value| -> Artifacts { serde_json::from_value(x.clone()).unwrap_or_default() };
        links.insert(s["name"].as_str().unwrap_or("").to_string(), LinkArtifacts { materials: arts(&s["materials"]), products: arts(&s["products"]) });
    }
    let parse_rules = |x: &serde_json::Value| -> Vec<RuleSpec> {
        x.as_array()
            .map(|a| {
                a.iter()
                    .filter_map(|r| {
                        let r: Vec<String> = serde_json::from_value(r.clone()).ok()?;
                        Some(match r[0].as_str() {
                            "CREATE" => RuleSpec::Create(r[1].clone()),
                            "DELETE" => RuleSpec::Delete(r[1].clone()),
                            "MODIFY" => RuleSpec::Modify(r[1].clone()),
                            "ALLOW" => RuleSpec::Allow(r[1].clone()),
                            "REQUIRE" => RuleSpec::Require(r[1].clone()),
                            "DISALLOW" => RuleSpec::Disallow(r[1].clone()),
                            "MATCH" => {
                                let mut i = 2;
                                let mut in_src = None;
                                if r[i] == "IN" {
                                    in_src = Some(r[i + 1].clone());
                                    i += 2;
                                }
                                let products = r[i + 1] == "PRODUCTS";
                                i += 2;
                                let mut in_dst = None;
                                if r[i] == "IN" {
                                    in_dst = Some(r[i + 1].clone());
                                    i += 2;
                                }
                                RuleSpec::Match { pattern: r[1].clone(), in_src, products, in_dst, from: r[i + 1].clone() }
                            }
                            _ => return None,
                        })
                    })
                    .collect()
            })
            .unwrap_or_default()
    };
    let steps = layout["signed"]["steps"].as_array().ok_or("steps")?;
    let mut n = 0;
    for st in steps {
        let name = st["name"].as_str().unwrap_or("");
        let em = parse_rules(&st["expected_materials"]);
        let ep = parse_rules(&st["expected_products"]);
        if let Verdict::Reject(r) = spec_rules(name, &em, &ep, &links) {
            return Err(format!("reference rule engine rejects step {} of the Python-made demo chain: {}", name, r));
        }
        n += 1;
        // single edits that must flip the verdict: prepend DISALLOW * to the product rules when there are products
        if !links[name].products.is_empty() {
            let mut ep2 = vec![RuleSpec::Disallow("*".into())];
            ep2.extend(ep.clone());
            if spec_rules(name, &em, &ep2, &links).is_accept() {
                return Err(format!("reference rule engine accepts step {} with a leading DISALLOW *", name));
            }
        }
    }
    if n == 0 {
        return Err("no steps in demo layout".into());
    }
    Ok(())
}
