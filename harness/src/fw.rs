//! Framework: property trait, worker loop (proptest TestRunner driven from a
//! binary), statistics, panic capture.

use std::cell::RefCell;
use std::collections::{BTreeMap, BTreeSet, HashSet};
use std::panic::{self, AssertUnwindSafe};
use std::path::PathBuf;

use proptest::strategy::{BoxedStrategy, Strategy, ValueTree};
use proptest::test_runner::{
    Config, RngAlgorithm, TestCaseError, TestError, TestRng, TestRunner,
};
use serde::{de::DeserializeOwned, Deserialize, Serialize};

#[derive(Clone, Copy, Debug, PartialEq, Eq)]
pub enum Tier {
    Quick,
    Thorough,
}

impl Tier {
    pub fn name(self) -> &'static str {
        match self {
            Tier::Quick => "quick",
            Tier::Thorough => "thorough",
        }
    }
    pub fn pick<T>(self, q: T, t: T) -> T {
        match self {
            Tier::Quick => q,
            Tier::Thorough => t,
        }
    }
}

#[derive(Clone, Debug, Serialize, Deserialize)]
pub struct Failure {
    /// Stable cause class, e.g. `C03/match/pattern-ignored`.
    pub signature: String,
    pub observed: String,
    pub expected: String,
}

#[derive(Clone, Debug)]
pub struct Outcome {
    pub failures: Vec<Failure>,
    /// `Some(fingerprint)` when the case is non-trivial by the property's rule.
    pub nontrivial: Option<String>,
    pub classes: Vec<String>,
    /// Number of library calls / sub-evaluations this case stands for (>= 1).
    pub evals: u64,
}

impl Outcome {
    pub fn new() -> Self {
        Outcome { failures: vec![], nontrivial: None, classes: vec![], evals: 1 }
    }
    pub fn class(&mut self, c: impl Into<String>) {
        self.classes.push(c.into());
    }
    pub fn nontrivial(&mut self, fp: impl Into<String>) {
        self.nontrivial = Some(fp.into());
    }
    pub fn fail(
        &mut self,
        signature: impl Into<String>,
        observed: impl Into<String>,
        expected: impl Into<String>,
    ) {
        self.failures.push(Failure {
            signature: signature.into(),
            observed: observed.into(),
            expected: expected.into(),
        });
    }
}

/// Per-worker environment handed to checks.
pub struct Env {
    pub tier: Tier,
    pub seed: u64,
    pub worker: usize,
    pub workers: usize,
    /// private scratch directory of this worker (exists, removed at exit)
    pub scratch: PathBuf,
    /// strict = replay mode: known findings are reported as failures too
    pub strict: bool,
    /// evaluate every case twice (regression replays)
    pub repeat_all: bool,
    counter: u64,
}

impl Env {
    pub fn new(tier: Tier, seed: u64, worker: usize, workers: usize, scratch: PathBuf) -> Self {
        Env { tier, seed, worker, workers, scratch, strict: false, repeat_all: false, counter: 0 }
    }
    /// A fresh, empty sub-directory of the scratch dir.
    pub fn fresh_dir(&mut self, tag: &str) -> PathBuf {
        self.counter += 1;
        let p = self.scratch.join(format!("{}-{}", tag, self.counter));
        let _ = std::fs::remove_dir_all(&p);
        std::fs::create_dir_all(&p).expect("create scratch dir");
        p
    }
}

pub trait Property {
    type Spec: Clone + std::fmt::Debug + Serialize + DeserializeOwned + Send + Sync + 'static;

    fn id() -> &'static str;
    fn level() -> &'static str {
        "exploration"
    }
    /// Text for the evidence file: generator + non-triviality/distinctness rule.
    fn rule() -> String;
    fn assumptions() -> Vec<String>;
    /// Total number of generated cases over all workers.
    fn cases(tier: Tier) -> u64;
    fn strategy(tier: Tier) -> BoxedStrategy<Self::Spec>;
    fn check(spec: &Self::Spec, env: &mut Env) -> Outcome;
    /// Model / harness self test, run once per run by the driver. Err => exit 2.
    fn selftest(_env: &mut Env) -> Result<(), String> {
        Ok(())
    }
    /// Deterministic (enumerated) cases, sharded over workers. The iterator of
    /// worker `w` must yield the cases with index ≡ w (mod workers).
    fn enumerate(_tier: Tier, _worker: usize, _workers: usize) -> Box<dyn Iterator<Item = Self::Spec>> {
        Box::new(std::iter::empty())
    }
    /// True when `enumerate` covers a finite space completely.
    fn enumeration_exhaustive(_tier: Tier) -> Option<String> {
        None
    }
    /// Minimum fraction of non-trivial cases among generated ones (health check).
    fn nontrivial_floor() -> f64 {
        0.05
    }
    /// Per-class floors (class name, minimum fraction of generated cases).
    fn class_floors() -> Vec<(&'static str, f64)> {
        vec![]
    }
    /// write current spec to disk before each case (properties that may kill the process)
    fn risky() -> bool {
        false
    }
    /// one case in `n` is evaluated twice in a row (0: never); see `eval`
    fn repeat_every() -> u64 {
        4
    }
    /// The check touches no process-global state of its own (working directory, injected clock),
    /// so a sample of passing cases may be re-evaluated from several threads at once.
    fn concurrent() -> bool {
        false
    }
    /// bound on shrink iterations (expensive cases want fewer)
    fn max_shrink_iters() -> u32 {
        4096
    }
}

// ---------------------------------------------------------------------------
// panic capture

#[derive(Clone, Debug)]
pub struct PanicInfo {
    pub file: String,
    pub line: u32,
    pub message: String,
    /// for panics raised inside std or a dependency: does the innermost frame of this workspace belong to the
    /// library under test (Some(true)) or to the harness (Some(false))? None: the back trace did not tell
    pub innermost_is_library: Option<bool>,
}

thread_local! {
    static LAST_PANIC: RefCell<Option<PanicInfo>> = RefCell::new(None);
}

pub fn install_panic_hook() {
    panic::set_hook(Box::new(|info| {
        let (file, line) = info
            .location()
            .map(|l| (l.file().to_string(), l.line()))
            .unwrap_or_else(|| ("?".into(), 0));
        let message = if let Some(s) = info.payload().downcast_ref::<&str>() {
            s.to_string()
        } else if let Some(s) = info.payload().downcast_ref::<String>() {
            s.clone()
        } else {
            "<non-string panic>".to_string()
        };
        let mut innermost_is_library = None;
        if !file.contains("/verif/") && !file.contains("/repo/") && !file.starts_with("src/") {
            let bt = std::backtrace::Backtrace::force_capture().to_string();
            for l in bt.lines() {
                let l = l.trim_start();
                if l.contains("in_toto::") {
                    innermost_is_library = Some(true);
                    break;
                }
                if l.contains("itv::") || l.contains("itv_oracles::") {
                    innermost_is_library = Some(false);
                    break;
                }
            }
        }
        LAST_PANIC.with(|p| *p.borrow_mut() = Some(PanicInfo { file, line, message, innermost_is_library }));
    }));
}

/// Run `f`, catching a panic. `Err(info)` describes the panic.
pub fn guarded<T>(f: impl FnOnce() -> T) -> Result<T, PanicInfo> {
    LAST_PANIC.with(|p| *p.borrow_mut() = None);
    match panic::catch_unwind(AssertUnwindSafe(f)) {
        Ok(v) => Ok(v),
        Err(_) => Err(LAST_PANIC.with(|p| p.borrow_mut().take()).unwrap_or(PanicInfo {
            file: "?".into(),
            line: 0,
            message: "?".into(),
            innermost_is_library: None,
        })),
    }
}

impl PanicInfo {
    /// Does the panic originate in the library under test (as opposed to the harness)?
    pub fn in_library(&self) -> bool {
        if self.file.contains("/verif/") || self.file.starts_with("src/") {
            return false;
        }
        // std or a dependency: whose call was it?
        self.innermost_is_library.unwrap_or(true)
    }
    /// Source file relative to the repository, without line number.
    pub fn site(&self) -> String {
        let f = &self.file;
        if let Some(i) = f.find("/repo/") {
            f[i + 6..].to_string()
        } else if let Some(i) = f.find("/registry/src/") {
            // dependency of the library: crate-name/path
            let rest = &f[i + 14..];
            rest.splitn(2, '/').nth(1).unwrap_or(rest).to_string()
        } else if let Some(i) = f.find("/library/") {
            format!("std:{}", &f[i + 9..])
        } else {
            f.clone()
        }
    }
    /// Message with digits and quoted data removed, so that it is a class.
    pub fn message_class(&self) -> String {
        let mut out = String::new();
        let mut last_hash = false;
        for ch in self.message.chars().take(200) {
            if ch.is_ascii_digit() {
                if !last_hash {
                    out.push('#');
                }
                last_hash = true;
            } else {
                last_hash = false;
                out.push(if ch.is_ascii_alphanumeric() || ch == ' ' || ch == '_' { ch } else { '.' });
            }
        }
        let cut: String = out.chars().take(32).collect();
        cut.trim().replace(' ', "_")
    }
}

// ---------------------------------------------------------------------------
// known findings

#[derive(Clone, Debug, Default)]
pub struct Known {
    /// signature -> description
    pub known: BTreeMap<String, String>,
    pub fixed: Vec<String>,
}

impl Known {
    pub fn load(id: &str) -> Known {
        let path = crate::verif_root().join("KNOWN_FINDINGS.txt");
        let mut k = Known::default();
        let Ok(text) = std::fs::read_to_string(path) else { return k };
        for line in text.lines() {
            let line = line.trim();
            if line.starts_with('#') || line.is_empty() {
                continue;
            }
            if let Some(rest) = line.strip_prefix("known:") {
                let rest = rest.trim();
                let mut prop = None;
                let mut sig = None;
                let mut desc = vec![];
                for tok in rest.split_whitespace() {
                    if let Some(v) = tok.strip_prefix("property=") {
                        if prop.is_none() {
                            prop = Some(v.to_string());
                            continue;
                        }
                    }
                    if let Some(v) = tok.strip_prefix("sig=") {
                        if sig.is_none() {
                            sig = Some(v.to_string());
                            continue;
                        }
                    }
                    desc.push(tok);
                }
                if let (Some(p), Some(s)) = (prop, sig) {
                    if p == id {
                        k.known.insert(s, desc.join(" "));
                    }
                }
            } else if let Some(rest) = line.strip_prefix("fixed:") {
                if rest.contains(&format!("property={}", id)) {
                    k.fixed.push(rest.trim().to_string());
                }
            }
        }
        k
    }
}

// ---------------------------------------------------------------------------
// worker

#[derive(Serialize, Deserialize, Default, Debug)]
pub struct FoundViolation {
    pub signature: String,
    pub observed: String,
    pub expected: String,
    pub spec: serde_json::Value,
    pub origin: String,
}

#[derive(Serialize, Deserialize, Default, Debug)]
pub struct WorkerReport {
    pub worker: usize,
    pub generated: u64,
    pub enumerated: u64,
    pub replayed: u64,
    pub evaluations: u64,
    pub nontrivial_cases: u64,
    pub nontrivial_fps: Vec<u64>,
    pub fp_capped: bool,
    pub classes: BTreeMap<String, u64>,
    pub samples: Vec<serde_json::Value>,
    pub violations: Vec<FoundViolation>,
    pub known_hits: BTreeMap<String, u64>,
    pub known_samples: BTreeMap<String, serde_json::Value>,
    pub harness_errors: Vec<String>,
    pub wall_s: f64,
    /// duration and (abridged) spec of the slowest single case
    #[serde(default)]
    pub slowest_s: f64,
    #[serde(default)]
    pub slowest_spec: String,
    pub completed: bool,
}

const FP_CAP: usize = 3_000_000;

fn fnv(s: &str) -> u64 {
    let mut h: u64 = 0xcbf29ce484222325;
    for b in s.as_bytes() {
        h ^= *b as u64;
        h = h.wrapping_mul(0x100000001b3);
    }
    h
}

pub fn mix_seed(seed: u64, id: &str, worker: usize) -> [u8; 32] {
    let mut out = [0u8; 32];
    let mut h = fnv(&format!("{}|{}|{}", seed, id, worker));
    for chunk in out.chunks_mut(8) {
        // splitmix64
        h = h.wrapping_add(0x9e3779b97f4a7c15);
        let mut z = h;
        z = (z ^ (z >> 30)).wrapping_mul(0xbf58476d1ce4e5b9);
        z = (z ^ (z >> 27)).wrapping_mul(0x94d049bb133111eb);
        z ^= z >> 31;
        chunk.copy_from_slice(&z.to_le_bytes());
    }
    out
}

struct Stats {
    rep: WorkerReport,
    fps: HashSet<u64>,
    sample_nt: usize,
    sample_any: usize,
}

impl Stats {
    fn record<S: Serialize>(&mut self, spec: &S, out: &Outcome) {
        self.rep.evaluations += out.evals.max(1);
        for c in &out.classes {
            *self.rep.classes.entry(c.clone()).or_insert(0) += 1;
        }
        if let Some(fp) = &out.nontrivial {
            self.rep.nontrivial_cases += 1;
            if self.fps.len() < FP_CAP {
                let new = self.fps.insert(fnv(fp));
                if new && self.sample_nt < 4 {
                    self.sample_nt += 1;
                    self.rep.samples.push(serde_json::json!({
                        "nontrivial": true, "fingerprint": fp, "classes": out.classes,
                        "spec": serde_json::to_value(spec).unwrap_or(serde_json::Value::Null)}));
                }
            } else {
                self.rep.fp_capped = true;
            }
        } else if self.sample_any < 1 {
            self.sample_any += 1;
            self.rep.samples.push(serde_json::json!({
                "nontrivial": false, "classes": out.classes,
                "spec": serde_json::to_value(spec).unwrap_or(serde_json::Value::Null)}));
        }
    }
}

/// Evaluate one spec with panic capture. Panics inside the library become
/// failures with a `panic/...` signature; panics in the harness are errors.
pub fn eval<P: Property>(spec: &P::Spec, env: &mut Env) -> Result<Outcome, String> {
    let mut first = eval_once::<P>(spec, env)?;
    // History: a deterministic quarter of the cases (every case in replay mode) is evaluated a
    // second time in the same process, straight after the first. The property must hold for the
    // same input again - state that an earlier call (successful or failed) left behind in the
    // library must not change the answer.
    let every = P::repeat_every();
    if first.failures.is_empty() && every > 0 {
        let pick = env.strict || env.repeat_all || fnv(&serde_json::to_string(spec).unwrap_or_default()) % every == 0;
        if pick {
            let second = eval_once::<P>(spec, env)?;
            first.classes.push("evaluated-twice".into());
            first.evals += second.evals.max(1);
            for mut f in second.failures {
                f.signature = format!("{}/on-repeat", f.signature);
                f.observed = format!("on the second evaluation of the same case in the same process: {}", f.observed);
                first.failures.push(f);
            }
        }
    }
    Ok(first)
}

fn eval_once<P: Property>(spec: &P::Spec, env: &mut Env) -> Result<Outcome, String> {
    match guarded(|| P::check(spec, env)) {
        Ok(o) => Ok(o),
        Err(pi) => {
            if pi.in_library() {
                let mut o = Outcome::new();
                o.fail(
                    format!("{}/panic/{}/{}", P::id(), pi.site(), pi.message_class()),
                    format!("panic at {}:{}: {}", pi.file, pi.line, pi.message),
                    "a value or an error",
                );
                Ok(o)
            } else {
                Err(format!("harness panic at {}:{}: {}", pi.file, pi.line, pi.message))
            }
        }
    }
}

pub struct WorkerArgs {
    pub tier: Tier,
    pub seed: u64,
    pub worker: usize,
    pub workers: usize,
    pub out: PathBuf,
    pub scratch: PathBuf,
    pub cases_override: Option<u64>,
}

pub fn run_worker<P: Property>(args: WorkerArgs) {
    let start = std::time::Instant::now();
    let mut env = Env::new(args.tier, args.seed, args.worker, args.workers, args.scratch.clone());
    let known = Known::load(P::id());
    let mut st = Stats {
        rep: WorkerReport { worker: args.worker, ..Default::default() },
        fps: HashSet::new(),
        sample_nt: 0,
        sample_any: 0,
    };
    let current = args.out.with_extension("current.json");
    let risky = P::risky();

    // phase handler shared by replay / enumeration
    let mut handle = |spec: &P::Spec, origin: &str, st: &mut Stats, env: &mut Env| {
        if risky {
            let _ = std::fs::write(&current, serde_json::to_vec(spec).unwrap_or_default());
        }
        match eval::<P>(spec, env) {
            Err(e) => st.rep.harness_errors.push(e),
            Ok(out) => {
                st.record(spec, &out);
                for f in &out.failures {
                    if known.known.contains_key(&f.signature) {
                        *st.rep.known_hits.entry(f.signature.clone()).or_insert(0) += 1;
                        st.rep.known_samples.entry(f.signature.clone()).or_insert_with(|| {
                            serde_json::to_value(spec).unwrap_or(serde_json::Value::Null)
                        });
                    } else if st.rep.violations.len() < 5
                        && !st.rep.violations.iter().any(|v| v.signature == f.signature)
                    {
                        st.rep.violations.push(FoundViolation {
                            signature: f.signature.clone(),
                            observed: f.observed.clone(),
                            expected: f.expected.clone(),
                            spec: serde_json::to_value(spec).unwrap_or(serde_json::Value::Null),
                            origin: origin.to_string(),
                        });
                    }
                }
            }
        }
    };

    // 1. regression replays (worker 0 only)
    if args.worker == 0 {
        let dir = crate::verif_root().join("replays").join(P::id());
        if let Ok(rd) = std::fs::read_dir(&dir) {
            let mut files: Vec<_> = rd.flatten().map(|e| e.path()).collect();
            files.sort();
            for f in files {
                if f.extension().map(|e| e != "json").unwrap_or(true) {
                    continue;
                }
                let Ok(text) = std::fs::read_to_string(&f) else { continue };
                let Ok(v) = from_slice_deep::<serde_json::Value>(text.as_bytes()) else {
                    st.rep.harness_errors.push(format!("unreadable replay {}", f.display()));
                    continue;
                };
                let specv = v.get("spec").cloned().unwrap_or(v);
                match serde_json::from_value::<P::Spec>(specv) {
                    Ok(spec) => {
                        st.rep.replayed += 1;
                        env.repeat_all = true;
                        handle(&spec, &format!("replay:{}", f.display()), &mut st, &mut env);
                        env.repeat_all = false;
                    }
                    Err(e) => st
                        .rep
                        .harness_errors
                        .push(format!("replay {} does not decode: {}", f.display(), e)),
                }
            }
        }
    }

    // 2. enumerated cases
    for spec in P::enumerate(args.tier, args.worker, args.workers) {
        st.rep.enumerated += 1;
        handle(&spec, "enumeration", &mut st, &mut env);
        if st.rep.harness_errors.len() > 3 {
            break;
        }
    }

    // 3. generated cases
    // thorough tier: the per-property case count times VERIF_THOROUGH_SCALE (default 1)
    let scale: u64 = if args.tier == Tier::Thorough { std::env::var("VERIF_THOROUGH_SCALE").ok().and_then(|s| s.parse().ok()).unwrap_or(1) } else { 1 };
    let total = args.cases_override.unwrap_or_else(|| P::cases(args.tier).saturating_mul(scale.max(1)));
    let mine = total / args.workers as u64
        + if (args.worker as u64) < total % args.workers as u64 { 1 } else { 0 };
    let strategy = P::strategy(args.tier);
    let mut pool: Vec<P::Spec> = vec![];
    // sample for the concurrent phase: an eighth of this worker's cases, between 16 and 256 (x4 thorough)
    let pool_cap = ((mine / 8) as usize).clamp(16, 256 * args.tier.pick(1, 4));
    let pool_stride = (mine / (2 * pool_cap as u64)).max(1);
    let mut remaining = mine;
    let mut round = 0u32;
    // Several rounds: after a violation is found and shrunk, continue with the
    // remaining budget (the violation's signature is then treated as already
    // reported), so that one shallow defect does not hide others.
    let mut reported: BTreeSet<String> = st.rep.violations.iter().map(|v| v.signature.clone()).collect();
    while remaining > 0 && round < 6 && st.rep.harness_errors.len() <= 3 {
        let mut seed = mix_seed(args.seed, P::id(), args.worker);
        seed[0] ^= round as u8;
        let cfg = Config {
            cases: remaining.min(u32::MAX as u64) as u32,
            failure_persistence: None,
            max_shrink_iters: P::max_shrink_iters(),
            max_local_rejects: 1_000_000,
            max_global_rejects: 1_000_000,
            ..Config::default()
        };
        let mut runner = TestRunner::new_with_rng(cfg, TestRng::from_seed(RngAlgorithm::ChaCha, &seed));
        let failed = std::cell::Cell::new(false);
        // wall-clock bound on *shrinking* only: once it is used up every further candidate counts as passing, so the
        // library stops at the smallest failing case found so far (which did fail; a verdict is never derived from time)
        let shrink_started: std::cell::Cell<Option<std::time::Instant>> = std::cell::Cell::new(None);
        let shrink_budget = std::time::Duration::from_secs(args.tier.pick(150, 900));
        let done = std::cell::Cell::new(0u64);
        let stc = RefCell::new(&mut st);
        let envc = RefCell::new(&mut env);
        let harness_err: RefCell<Option<String>> = RefCell::new(None);
        let poolc = RefCell::new(&mut pool);
        let result = runner.run(&strategy, |spec| {
            if failed.get() {
                match shrink_started.get() {
                    None => shrink_started.set(Some(std::time::Instant::now())),
                    Some(t) if t.elapsed() > shrink_budget => return Ok(()),
                    _ => {}
                }
            }
            let mut env = envc.borrow_mut();
            if risky {
                let _ = std::fs::write(&current, serde_json::to_vec(&spec).unwrap_or_default());
            }
            let t_case = std::time::Instant::now();
            let out = match eval::<P>(&spec, &mut env) {
                Ok(o) => o,
                Err(e) => {
                    *harness_err.borrow_mut() = Some(e.clone());
                    return Err(TestCaseError::fail(format!("HARNESS:{}", e)));
                }
            };
            let shrinking = failed.get();
            let mut st = stc.borrow_mut();
            let dt = t_case.elapsed().as_secs_f64();
            if dt > st.rep.slowest_s {
                st.rep.slowest_s = dt;
                let mut text = serde_json::to_string(&spec).unwrap_or_default();
                if text.len() > 1500 {
                    let mut n = 1500;
                    while !text.is_char_boundary(n) {
                        n -= 1;
                    }
                    text.truncate(n);
                }
                st.rep.slowest_spec = text;
            }
            if !shrinking {
                done.set(done.get() + 1);
                st.rep.generated += 1;
                st.record(&spec, &out);
                if out.failures.is_empty() && out.nontrivial.is_some() && done.get() % pool_stride == 0 {
                    let mut pool = poolc.borrow_mut();
                    if pool.len() < pool_cap {
                        pool.push(spec.clone());
                    }
                }
            }
            let mut bad: Option<&Failure> = None;
            for f in &out.failures {
                if known.known.contains_key(&f.signature) {
                    if !shrinking {
                        *st.rep.known_hits.entry(f.signature.clone()).or_insert(0) += 1;
                        st.rep.known_samples.entry(f.signature.clone()).or_insert_with(|| {
                            serde_json::to_value(&spec).unwrap_or(serde_json::Value::Null)
                        });
                    }
                } else if reported.contains(&f.signature) {
                    // already reported in an earlier round
                } else if bad.is_none() {
                    bad = Some(f);
                }
            }
            if let Some(f) = bad {
                failed.set(true);
                return Err(TestCaseError::fail(f.signature.clone()));
            }
            Ok(())
        });
        drop(stc);
        drop(envc);
        drop(poolc);
        remaining = remaining.saturating_sub(done.get().max(1));
        match result {
            Ok(()) => break,
            Err(TestError::Abort(r)) => {
                st.rep.harness_errors.push(format!("proptest aborted: {}", r));
                break;
            }
            Err(TestError::Fail(reason, spec)) => {
                if let Some(e) = harness_err.borrow_mut().take() {
                    st.rep.harness_errors.push(e);
                    break;
                }
                let sig = reason.message().to_string();
                // re-evaluate the shrunk value for observed/expected
                let (obs, exp) = match eval::<P>(&spec, &mut env) {
                    Ok(o) => o
                        .failures
                        .iter()
                        .find(|f| f.signature == sig)
                        .or(o.failures.first())
                        .map(|f| (f.observed.clone(), f.expected.clone()))
                        .unwrap_or_else(|| ("(did not reproduce on re-evaluation)".into(), "".into())),
                    Err(e) => (e, "".into()),
                };
                reported.insert(sig.clone());
                st.rep.violations.push(FoundViolation {
                    signature: sig,
                    observed: obs,
                    expected: exp,
                    spec: serde_json::to_value(&spec).unwrap_or(serde_json::Value::Null),
                    origin: format!("generated(worker {}, round {}, shrunk)", args.worker, round),
                });
                round += 1;
            }
        }
    }
    // 4. concurrent use: a sample of cases that passed sequentially is evaluated again from
    // several threads at once (each thread walks the sample from a different offset, so different
    // inputs are in flight together). The property must hold for each of them all the same.
    if P::concurrent() && pool.len() >= CONCURRENT_THREADS && st.rep.violations.is_empty() && st.rep.harness_errors.is_empty() {
        let results = concurrent_phase::<P>(&pool, &env);
        st.rep.evaluations += (pool.len() * CONCURRENT_THREADS) as u64;
        *st.rep.classes.entry("evaluated-concurrently".into()).or_insert(0) += (pool.len() * CONCURRENT_THREADS) as u64;
        for (idx, r) in results {
            match r {
                Err(e) => st.rep.harness_errors.push(format!("concurrent phase: {}", e)),
                Ok(fails) => {
                    for f in fails {
                        let sig = format!("{}/concurrent-use", f.signature);
                        if known.known.contains_key(&sig) || known.known.contains_key(&f.signature) {
                            *st.rep.known_hits.entry(sig).or_insert(0) += 1;
                        } else if st.rep.violations.len() < 5 && !st.rep.violations.iter().any(|v| v.signature == sig) {
                            st.rep.violations.push(FoundViolation {
                                signature: sig,
                                observed: format!("while {} threads were evaluating different cases at once: {}", CONCURRENT_THREADS, f.observed),
                                expected: f.expected.clone(),
                                spec: serde_json::to_value(&pool[idx]).unwrap_or(serde_json::Value::Null),
                                origin: format!("concurrent phase (worker {}, the case passed when evaluated alone)", args.worker),
                            });
                        }
                    }
                }
            }
        }
    }
    if remaining == 0 || round < 6 {
        st.rep.completed = true;
    }
    if risky {
        let _ = std::fs::remove_file(&current);
    }
    st.rep.nontrivial_fps = st.fps.iter().cloned().collect();
    st.rep.wall_s = start.elapsed().as_secs_f64();
    let bytes = serde_json::to_vec(&st.rep).expect("serialise report");
    std::fs::write(&args.out, bytes).expect("write report");
}

const CONCURRENT_THREADS: usize = 4;

fn concurrent_phase<P: Property>(pool: &[P::Spec], env: &Env) -> Vec<(usize, Result<Vec<Failure>, String>)> {
    let barrier = std::sync::Barrier::new(CONCURRENT_THREADS);
    let mut all = vec![];
    std::thread::scope(|scope| {
        let mut handles = vec![];
        for t in 0..CONCURRENT_THREADS {
            let barrier = &barrier;
            let scratch = env.scratch.join(format!("conc-{}", t));
            let (tier, seed, worker, workers) = (env.tier, env.seed, env.worker, env.workers);
            handles.push(scope.spawn(move || {
                let mut tenv = Env::new(tier, seed, worker, workers, scratch);
                let mut out = vec![];
                barrier.wait();
                let n = pool.len();
                for i in 0..n {
                    let idx = (i + t * n / CONCURRENT_THREADS) % n;
                    let r = eval_once::<P>(&pool[idx], &mut tenv).map(|o| o.failures);
                    if !matches!(&r, Ok(f) if f.is_empty()) {
                        out.push((idx, r));
                    }
                }
                out
            }));
        }
        for h in handles {
            match h.join() {
                Ok(v) => all.extend(v),
                Err(_) => all.push((0, Err("thread panicked outside a guarded section".into()))),
            }
        }
    });
    all
}

/// Parse JSON without serde_json's nesting limit of 128 (specs may hold JSON values nested 120 levels deep, each
/// level costing two levels in the spec's own encoding).
pub fn from_slice_deep<T: DeserializeOwned>(bytes: &[u8]) -> Result<T, String> {
    let mut de = serde_json::Deserializer::from_slice(bytes);
    de.disable_recursion_limit();
    let v = T::deserialize(&mut de).map_err(|e| e.to_string())?;
    de.end().map_err(|e| e.to_string())?;
    Ok(v)
}

/// Replay one spec file in strict mode. Returns failures.
pub fn replay_one<P: Property>(path: &std::path::Path, env: &mut Env) -> Result<Vec<Failure>, String> {
    let text = std::fs::read_to_string(path).map_err(|e| e.to_string())?;
    let v: serde_json::Value = from_slice_deep(text.as_bytes())?;
    let specv = v.get("spec").cloned().unwrap_or(v);
    let spec: P::Spec = serde_json::from_value(specv).map_err(|e| format!("spec decode: {}", e))?;
    env.strict = true;
    let out = eval::<P>(&spec, env)?;
    Ok(out.failures)
}

/// Helper: sample one value of a strategy (used by self-tests / tools).
#[allow(dead_code)]
pub fn sample<T: std::fmt::Debug>(s: &BoxedStrategy<T>, seed: u64) -> T {
    let mut runner = TestRunner::new_with_rng(
        Config::default(),
        TestRng::from_seed(RngAlgorithm::ChaCha, &mix_seed(seed, "sample", 0)),
    );
    s.new_tree(&mut runner).expect("tree").current()
}
