pub mod text;
