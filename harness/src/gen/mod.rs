pub mod attest;
pub mod edit;
pub mod json;
pub mod keys;
pub mod meta;
pub mod text;
pub mod world;
