pub mod json;
pub mod keys;
pub mod meta;
pub mod text;
