//! Single-site edits of a JSON tree (as an attacker would edit a signed document).

use proptest::prelude::*;
use serde::{Deserialize, Serialize};
use serde_json::Value;

#[derive(Clone, Debug, Serialize, Deserialize, PartialEq, Eq)]
pub struct TreeEdit {
    /// site selector, mapped monotonically onto the sites of the tree
    pub site: u16,
    pub kind: u8,
    pub arg: String,
}

#[derive(Clone, Debug, PartialEq)]
enum Step {
    Key(String),
    Idx(usize),
}

#[derive(Clone, Debug)]
enum SiteKind {
    Str,
    Num,
    Null,
    Bool,
    Key,
    Arr,
}

fn sites(v: &Value, path: &mut Vec<Step>, out: &mut Vec<(Vec<Step>, SiteKind)>) {
    match v {
        Value::String(_) => out.push((path.clone(), SiteKind::Str)),
        Value::Number(_) => out.push((path.clone(), SiteKind::Num)),
        Value::Null => out.push((path.clone(), SiteKind::Null)),
        Value::Bool(_) => out.push((path.clone(), SiteKind::Bool)),
        Value::Array(a) => {
            out.push((path.clone(), SiteKind::Arr));
            for (i, x) in a.iter().enumerate() {
                path.push(Step::Idx(i));
                sites(x, path, out);
                path.pop();
            }
        }
        Value::Object(o) => {
            for (k, x) in o.iter() {
                path.push(Step::Key(k.clone()));
                out.push((path.clone(), SiteKind::Key));
                sites(x, path, out);
                path.pop();
            }
        }
    }
}

fn get_mut<'a>(v: &'a mut Value, path: &[Step]) -> Option<&'a mut Value> {
    let mut cur = v;
    for s in path {
        cur = match s {
            Step::Key(k) => cur.get_mut(k.as_str())?,
            Step::Idx(i) => cur.get_mut(*i)?,
        };
    }
    Some(cur)
}

fn get<'a>(v: &'a Value, path: &[Step]) -> Option<&'a Value> {
    let mut cur = v;
    for s in path {
        cur = match s {
            Step::Key(k) => cur.get(k.as_str())?,
            Step::Idx(i) => cur.get(*i)?,
        };
    }
    Some(cur)
}

/// Near-collision rewrite of a string.
fn edit_string(s: &str, kind: u8, arg: &str) -> String {
    match kind % 16 {
        12 => format!("./{}", s),
        13 => {
            if s.contains('/') {
                s.replacen('/', "//", 1)
            } else {
                format!("{}/.", s)
            }
        }
        14 => format!("{}/", s),
        15 => format!("x/../{}", s),
        0 => format!("{}{}", s, if arg.is_empty() { "x" } else { arg }),
        1 => {
            if s.contains('\n') {
                s.replacen('\n', "\\n", 1)
            } else if s.contains("\\n") {
                s.replacen("\\n", "\n", 1)
            } else {
                format!("{}\n", s)
            }
        }
        2 => format!("{}\\", s),
        3 => format!("{}\"", s),
        4 => format!("\\{}", s),
        5 => format!("{}\u{1}", s),
        6 => {
            let mut c: Vec<char> = s.chars().collect();
            if c.is_empty() {
                "a".to_string()
            } else {
                c.pop();
                c.into_iter().collect()
            }
        }
        7 => s.replacen("\\\\", "\\", 1) + if s.contains("\\\\") { "" } else { "\\\\" },
        8 => format!("{}\t", s),
        9 => format!("{}\\u000a", s),
        10 => {
            // change one character in the middle
            let mut c: Vec<char> = s.chars().collect();
            if c.is_empty() {
                "b".into()
            } else {
                let i = c.len() / 2;
                c[i] = if c[i] == 'a' { 'b' } else { 'a' };
                c.into_iter().collect()
            }
        }
        _ => format!("{} ", s),
    }
}

/// Apply the edit; `None` when the tree has no site or the edit is a no-op.
pub fn apply_edit(v: &Value, e: &TreeEdit) -> Option<(Value, String)> {
    let mut all = vec![];
    sites(v, &mut vec![], &mut all);
    if all.is_empty() {
        return None;
    }
    let mut i = (e.site as usize * all.len()) >> 16;
    let mut forced_kind = e.kind;
    if e.site == u16::MAX {
        // dedicated site: the (kind/2)-th MATCH rule of the document, optional-clause toggle
        let rules: Vec<usize> = all
            .iter()
            .enumerate()
            .filter(|(_, (p, k))| {
                matches!(k, SiteKind::Arr)
                    && get(v, p).and_then(|a| a.as_array()).and_then(|a| a.first()).and_then(|x| x.as_str()).map(|x| x.eq_ignore_ascii_case("MATCH")).unwrap_or(false)
            })
            .map(|(i, _)| i)
            .collect();
        if !rules.is_empty() {
            i = rules[(e.kind as usize / 2) % rules.len()];
            forced_kind = 200 + e.kind % 2;
        }
    }
    if e.site == u16::MAX - 1 {
        // dedicated site: the first string below a member whose name starts with "./" (a digest of an artifact that is
        // recorded under a second, non-normalised spelling); one character in the middle is changed
        match all.iter().position(|(p, k)| matches!(k, SiteKind::Str) && p.iter().any(|s| matches!(s, Step::Key(n) if n.starts_with("./")))) {
            Some(pos) => {
                i = pos;
                forced_kind = 10;
            }
            None => return None,
        }
    }
    let e = &TreeEdit { site: e.site, kind: forced_kind, arg: e.arg.clone() };
    let (path, kind) = all[i].clone();
    let mut out = v.clone();
    let describe = |p: &Vec<Step>| {
        p.iter()
            .map(|s| match s {
                Step::Key(k) => {
                    // generalise data-dependent keys
                    k.clone()
                }
                Step::Idx(_) => "#".to_string(),
            })
            .collect::<Vec<_>>()
            .join("/")
    };
    let what;
    match kind {
        SiteKind::Str => {
            let slot = get_mut(&mut out, &path)?;
            let s = slot.as_str()?.to_string();
            if e.kind % 32 == 31 {
                // string -> number type change when it looks like one
                *slot = s.parse::<i64>().map(Value::from).unwrap_or(Value::String(format!("{}0", s)));
                what = format!("str-retype@{}", describe(&path));
            } else if e.kind % 32 == 30 {
                // string -> container holding it (as other implementations nest values where this one has text)
                *slot = serde_json::json!({ "nested": s });
                what = format!("str-to-object@{}", describe(&path));
            } else if e.kind % 32 == 29 {
                *slot = serde_json::json!([s]);
                what = format!("str-to-array@{}", describe(&path));
            } else {
                *slot = Value::String(edit_string(&s, e.kind, &e.arg));
                what = format!("str-edit{}@{}", e.kind % 16, describe(&path));
            }
        }
        SiteKind::Num => {
            let slot = get_mut(&mut out, &path)?;
            let n = slot.clone();
            *slot = if let Some(u) = n.as_u64() {
                match e.kind % 3 {
                    0 => Value::from(u.wrapping_add(1)),
                    1 => Value::from(u.wrapping_sub(1) as i64),
                    _ => Value::String(u.to_string()),
                }
            } else if let Some(i) = n.as_i64() {
                Value::from(i.wrapping_add(1))
            } else {
                Value::from(0)
            };
            what = format!("num-edit{}@{}", e.kind % 3, describe(&path));
        }
        SiteKind::Null => {
            let slot = get_mut(&mut out, &path)?;
            *slot = match e.kind % 3 {
                0 => serde_json::json!({}),
                1 => serde_json::json!({"k": "v"}),
                _ => serde_json::json!({"variables": {"PATH": "/bin"}, "workdir": "/w"}),
            };
            what = format!("null-edit{}@{}", e.kind % 3, describe(&path));
        }
        SiteKind::Bool => {
            let slot = get_mut(&mut out, &path)?;
            *slot = Value::Bool(!slot.as_bool()?);
            what = format!("bool-flip@{}", describe(&path));
        }
        SiteKind::Key => {
            let (last, parent) = path.split_last()?;
            let Step::Key(k) = last else { return None };
            let obj = get_mut(&mut out, parent)?.as_object_mut()?;
            match e.kind % 4 {
                0 | 1 => {
                    // rename the member
                    let val = obj.remove(k.as_str())?;
                    let nk = edit_string(k, e.kind / 4, &e.arg);
                    if obj.contains_key(&nk) {
                        return None;
                    }
                    obj.insert(nk, val);
                    what = format!("key-rename@{}", describe(&parent.to_vec()));
                }
                2 => {
                    // remove the member
                    obj.remove(k.as_str())?;
                    what = format!("member-removed@{}", describe(&path));
                }
                _ => {
                    // move text between key and value
                    let val = obj.remove(k.as_str())?;
                    let s = val.as_str()?.to_string();
                    let mut kc: Vec<char> = k.chars().collect();
                    let moved = kc.pop()?;
                    let nk: String = kc.into_iter().collect();
                    if obj.contains_key(&nk) {
                        return None;
                    }
                    obj.insert(nk, Value::String(format!("{}{}", moved, s)));
                    what = format!("key-value-shift@{}", describe(&parent.to_vec()));
                }
            }
        }
        SiteKind::Arr => {
            let arr = get_mut(&mut out, &path)?.as_array_mut()?;
            // MATCH rules: toggle an *empty* optional `IN <prefix>` clause (kinds 200..)
            if e.kind >= 200 && arr.first().and_then(|x| x.as_str()).map(|x| x.eq_ignore_ascii_case("MATCH")).unwrap_or(false) {
                let anchor = if e.kind % 2 == 0 { "WITH" } else { "FROM" };
                if let Some(pos) = arr.iter().position(|x| x.as_str().map(|x| x.eq_ignore_ascii_case(anchor)).unwrap_or(false)) {
                    let has_empty_in = pos >= 2 && arr[pos - 1].as_str() == Some("") && arr[pos - 2].as_str().map(|x| x.eq_ignore_ascii_case("IN")).unwrap_or(false);
                    let has_in = pos >= 2 && arr[pos - 2].as_str().map(|x| x.eq_ignore_ascii_case("IN")).unwrap_or(false);
                    if has_empty_in {
                        arr.remove(pos - 1);
                        arr.remove(pos - 2);
                        return finish(out, v, format!("match-empty-prefix-removed@{}", describe(&path)));
                    } else if !has_in {
                        arr.insert(pos, Value::String(String::new()));
                        arr.insert(pos, Value::String("IN".into()));
                        return finish(out, v, format!("match-empty-prefix-added@{}", describe(&path)));
                    }
                }
            }
            let arr = get_mut(&mut out, &path)?.as_array_mut()?;
            match e.kind % 5 {
                0 => {
                    if arr.is_empty() {
                        arr.push(Value::String(if e.arg.is_empty() { "x".into() } else { e.arg.clone() }));
                    } else {
                        let i = (e.kind as usize / 5) % arr.len();
                        arr.remove(i);
                    }
                    what = format!("arr-remove-or-add@{}", describe(&path));
                }
                1 => {
                    if arr.is_empty() {
                        return None;
                    }
                    let i = (e.kind as usize / 5) % arr.len();
                    let x = arr[i].clone();
                    arr.insert(i, x);
                    what = format!("arr-duplicate@{}", describe(&path));
                }
                2 => {
                    // merge two adjacent string elements
                    if arr.len() < 2 {
                        return None;
                    }
                    let i = (e.kind as usize / 5) % (arr.len() - 1);
                    let a = arr[i].as_str()?.to_string();
                    let b = arr[i + 1].as_str()?.to_string();
                    arr[i] = Value::String(format!("{}{}", a, b));
                    arr.remove(i + 1);
                    what = format!("arr-merge@{}", describe(&path));
                }
                3 => {
                    // split a string element
                    if arr.is_empty() {
                        return None;
                    }
                    let i = (e.kind as usize / 5) % arr.len();
                    let s: Vec<char> = arr[i].as_str()?.chars().collect();
                    if s.len() < 2 {
                        return None;
                    }
                    let (a, b) = s.split_at(s.len() / 2);
                    arr[i] = Value::String(a.iter().collect());
                    arr.insert(i + 1, Value::String(b.iter().collect()));
                    what = format!("arr-split@{}", describe(&path));
                }
                _ => {
                    if arr.len() < 2 {
                        return None;
                    }
                    let i = (e.kind as usize / 5) % (arr.len() - 1);
                    arr.swap(i, i + 1);
                    what = format!("arr-swap@{}", describe(&path));
                }
            }
        }
    }
    if &out == v {
        return None;
    }
    Some((out, what))
}

fn finish(out: Value, v: &Value, what: String) -> Option<(Value, String)> {
    if &out == v {
        return None;
    }
    Some((out, what))
}

pub fn tree_edit() -> BoxedStrategy<TreeEdit> {
    (prop_oneof![11 => any::<u16>(), 1 => Just(u16::MAX)], any::<u8>(), prop_oneof![Just(String::new()), Just("n".to_string()), Just("\\".to_string()), Just("/x".to_string())])
        .prop_map(|(site, kind, arg)| TreeEdit { site, kind, arg })
        .boxed()
}
