//! Key pool and key specifications.

use std::cell::RefCell;
use std::collections::HashMap;
use std::rc::Rc;

use in_toto::crypto::{KeyId, PrivateKey, PublicKey, SignatureScheme};
use proptest::prelude::*;
use ring::signature::KeyPair;
use serde::{Deserialize, Serialize};

pub const ECDSA_POOL: usize = 3;
pub const RSA_POOL: &[&str] = &["rsa2048-0", "rsa2048-1", "rsa3072-0", "rsa4096-0", "rsa2048-bigexp"];

#[derive(Clone, Debug, PartialEq, Eq, Hash, PartialOrd, Ord, Serialize, Deserialize)]
pub enum KeySpec {
    /// Ed25519 from a seed; `pkcs8`: imported through PKCS#8 (default key-id hash-algorithm list)
    /// or through the raw 64-byte keypair form (list absent)
    Ed { seed: u8, pkcs8: bool },
    /// ECDSA P-256, index into the corpus
    Ec { idx: usize },
    /// RSA, index into RSA_POOL, PSS with SHA-256 or SHA-512
    Rsa { idx: usize, sha512: bool },
}

impl KeySpec {
    pub fn kind(&self) -> &'static str {
        match self {
            KeySpec::Ed { pkcs8: true, .. } => "ed25519-pkcs8",
            KeySpec::Ed { pkcs8: false, .. } => "ed25519-raw",
            KeySpec::Ec { .. } => "ecdsa",
            KeySpec::Rsa { sha512: false, .. } => "rsa-pss-sha256",
            KeySpec::Rsa { sha512: true, .. } => "rsa-pss-sha512",
        }
    }
    pub fn is_deterministic(&self) -> bool {
        matches!(self, KeySpec::Ed { .. })
    }
}

/// Seeds 248..=255 stand for Ed25519 key pairs found by search (`itv find-colliders`): the key ids of 248/249 and of
/// 250/251 share their first eight hexadecimal characters in the PKCS#8 form (`pkcs8: true`, id computed with the
/// hash-algorithm list), those of 252/253 and of 254/255 in the raw form. Two such keys are told apart by nothing that
/// a link file name carries.
pub const COLLIDER_COUNTERS: [u32; 8] = [13285, 17403, 24980, 44466, 14149, 24132, 27833, 53712];
pub const COLLIDER_BASE: u8 = 248;

pub fn wide_seed(c: u32) -> [u8; 32] {
    let mut s = [0x6bu8; 32];
    s[..4].copy_from_slice(&c.to_le_bytes());
    s[4..12].copy_from_slice(b"collider");
    s
}

/// The other key of a colliding pair (same `pkcs8` form), if `k` is one.
pub fn collider_of(k: &KeySpec) -> Option<KeySpec> {
    match k {
        KeySpec::Ed { seed, pkcs8 } if *seed >= COLLIDER_BASE => Some(KeySpec::Ed { seed: COLLIDER_BASE + ((*seed - COLLIDER_BASE) ^ 1), pkcs8: *pkcs8 }),
        _ => None,
    }
}

/// The i-th colliding pair, in the form in which it collides.
pub fn collider_pair(i: u8) -> (KeySpec, KeySpec) {
    let j = i % 4;
    let pkcs8 = j < 2;
    (KeySpec::Ed { seed: COLLIDER_BASE + 2 * j, pkcs8 }, KeySpec::Ed { seed: COLLIDER_BASE + 2 * j + 1, pkcs8 })
}

pub fn ed_seed_bytes(seed: u8) -> [u8; 32] {
    if seed >= COLLIDER_BASE {
        return wide_seed(COLLIDER_COUNTERS[(seed - COLLIDER_BASE) as usize]);
    }
    let mut s = [0u8; 32];
    for (i, b) in s.iter_mut().enumerate() {
        *b = seed.wrapping_mul(31).wrapping_add(i as u8).wrapping_mul(17) ^ 0x5a;
    }
    s[0] = seed;
    s
}

pub fn ed_public(seed: u8) -> Vec<u8> {
    let kp = ring::signature::Ed25519KeyPair::from_seed_unchecked(&ed_seed_bytes(seed)).expect("seed");
    kp.public_key().as_ref().to_vec()
}

/// PKCS#8 v2 document for an Ed25519 seed (RFC 8410 / ring template).
pub fn ed_pkcs8(seed: u8) -> Vec<u8> {
    let mut v = vec![0x30, 0x53, 0x02, 0x01, 0x01, 0x30, 0x05, 0x06, 0x03, 0x2b, 0x65, 0x70, 0x04, 0x22, 0x04, 0x20];
    v.extend_from_slice(&ed_seed_bytes(seed));
    v.extend_from_slice(&[0xa1, 0x23, 0x03, 0x21, 0x00]);
    v.extend_from_slice(&ed_public(seed));
    v
}

pub fn corpus_file(name: &str) -> Vec<u8> {
    let p = crate::verif_root().join("corpus").join("keys").join(name);
    std::fs::read(&p).unwrap_or_else(|e| panic!("harness: cannot read {}: {}", p.display(), e))
}

thread_local! {
    static CACHE: RefCell<HashMap<KeySpec, Rc<PrivateKey>>> = RefCell::new(HashMap::new());
}

pub fn private(spec: &KeySpec) -> Rc<PrivateKey> {
    if let Some(k) = CACHE.with(|c| c.borrow().get(spec).cloned()) {
        return k;
    }
    let k = match spec {
        KeySpec::Ed { seed, pkcs8: true } => PrivateKey::from_pkcs8(&ed_pkcs8(*seed), SignatureScheme::Ed25519),
        KeySpec::Ed { seed, pkcs8: false } => {
            let mut raw = ed_seed_bytes(*seed).to_vec();
            raw.extend_from_slice(&ed_public(*seed));
            PrivateKey::from_ed25519(&raw)
        }
        KeySpec::Ec { idx } => PrivateKey::from_pkcs8(
            &corpus_file(&format!("ecdsa-{}.pk8.der", idx % ECDSA_POOL)),
            SignatureScheme::EcdsaP256Sha256,
        ),
        KeySpec::Rsa { idx, sha512 } => PrivateKey::from_pkcs8(
            &corpus_file(&format!("{}.pk8.der", RSA_POOL[idx % RSA_POOL.len()])),
            if *sha512 { SignatureScheme::RsaSsaPssSha512 } else { SignatureScheme::RsaSsaPssSha256 },
        ),
    }
    .unwrap_or_else(|e| panic!("harness: key {:?} does not load: {}", spec, e));
    let k = Rc::new(k);
    CACHE.with(|c| c.borrow_mut().insert(spec.clone(), k.clone()));
    k
}

pub fn public(spec: &KeySpec) -> PublicKey {
    private(spec).public().clone()
}

pub fn key_id(spec: &KeySpec) -> KeyId {
    private(spec).key_id().clone()
}

pub fn key_id_str(spec: &KeySpec) -> String {
    serde_json::to_value(key_id(spec)).unwrap().as_str().unwrap().to_string()
}

/// Raw signature with ring directly (no library code): returns signature bytes.
pub fn ring_sign(spec: &KeySpec, msg: &[u8]) -> Vec<u8> {
    let rng = ring::rand::SystemRandom::new();
    match spec {
        KeySpec::Ed { seed, .. } => {
            let kp = ring::signature::Ed25519KeyPair::from_seed_unchecked(&ed_seed_bytes(*seed)).unwrap();
            kp.sign(msg).as_ref().to_vec()
        }
        KeySpec::Ec { idx } => {
            let kp = ring::signature::EcdsaKeyPair::from_pkcs8(
                &ring::signature::ECDSA_P256_SHA256_ASN1_SIGNING,
                &corpus_file(&format!("ecdsa-{}.pk8.der", idx % ECDSA_POOL)),
                &rng,
            )
            .unwrap();
            kp.sign(&rng, msg).unwrap().as_ref().to_vec()
        }
        KeySpec::Rsa { idx, sha512 } => {
            let kp = ring::signature::RsaKeyPair::from_pkcs8(&corpus_file(&format!("{}.pk8.der", RSA_POOL[idx % RSA_POOL.len()]))).unwrap();
            let mut sig = vec![0u8; kp.public().modulus_len()];
            let alg: &'static dyn ring::signature::RsaEncoding =
                if *sha512 { &ring::signature::RSA_PSS_SHA512 } else { &ring::signature::RSA_PSS_SHA256 };
            kp.sign(alg, &rng, msg, &mut sig).unwrap();
            sig
        }
    }
}

/// Verify a raw signature with ring directly.
pub fn ring_verify(spec: &KeySpec, msg: &[u8], sig: &[u8]) -> bool {
    let pk = public(spec);
    let alg: &dyn ring::signature::VerificationAlgorithm = match spec {
        KeySpec::Ed { .. } => &ring::signature::ED25519,
        KeySpec::Ec { .. } => &ring::signature::ECDSA_P256_SHA256_ASN1,
        KeySpec::Rsa { sha512: false, .. } => &ring::signature::RSA_PSS_2048_8192_SHA256,
        KeySpec::Rsa { sha512: true, .. } => &ring::signature::RSA_PSS_2048_8192_SHA512,
    };
    ring::signature::UnparsedPublicKey::new(alg, pk.as_bytes()).verify(msg, sig).is_ok()
}

// ---- strategies -----------------------------------------------------------

/// Cheap keys only (Ed25519): for high-volume properties.
/// The same key material under its other key id (Ed25519: raw vs PKCS#8 import differ in the hash-algorithm list;
/// RSA: the other PSS scheme). None for ECDSA.
pub fn twin_of(k: &KeySpec) -> Option<KeySpec> {
    match k {
        KeySpec::Ed { seed, pkcs8 } => Some(KeySpec::Ed { seed: *seed, pkcs8: !*pkcs8 }),
        KeySpec::Rsa { idx, sha512 } => Some(KeySpec::Rsa { idx: *idx, sha512: !*sha512 }),
        KeySpec::Ec { .. } => None,
    }
}

pub fn ed_key() -> BoxedStrategy<KeySpec> {
    (0u8..12, any::<bool>()).prop_map(|(seed, pkcs8)| KeySpec::Ed { seed, pkcs8 }).boxed()
}

/// All key types; Ed25519 dominant because RSA signing is slow.
pub fn any_key() -> BoxedStrategy<KeySpec> {
    prop_oneof![
        6 => ed_key(),
        3 => (0..ECDSA_POOL).prop_map(|idx| KeySpec::Ec { idx }),
        1 => (0..RSA_POOL.len(), any::<bool>()).prop_map(|(idx, sha512)| KeySpec::Rsa { idx, sha512 }),
    ]
    .boxed()
}

/// `n` keys with pairwise distinct key ids.
pub fn distinct_keys(min: usize, max: usize, cheap: bool) -> BoxedStrategy<Vec<KeySpec>> {
    let k = if cheap { ed_key() } else { any_key() };
    proptest::collection::vec(k, min..=max.max(min) + 2)
        .prop_map(move |v| {
            let mut seen = std::collections::BTreeSet::new();
            let mut out = vec![];
            for k in v {
                // distinct key material *and* distinct id: Ed{seed,pkcs8} variants share material
                let mat = match &k {
                    KeySpec::Ed { seed, .. } => format!("ed{}", seed),
                    KeySpec::Ec { idx } => format!("ec{}", idx),
                    KeySpec::Rsa { idx, .. } => format!("rsa{}", idx),
                };
                if seen.insert(mat) && out.len() < max {
                    out.push(k);
                }
            }
            out
        })
        .prop_filter("enough distinct keys", move |v| v.len() >= min)
        .boxed()
}
