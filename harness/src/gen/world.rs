//! Strategies for valid end-to-end worlds; properties inject their own faults.

use proptest::prelude::*;

use crate::gen::keys::*;
use crate::gen::meta::*;
use crate::world::*;

#[derive(Clone, Copy, Debug, PartialEq, Eq)]
pub enum RuleMode {
    None,
    Permissive,
    /// `ALLOW *` preceded by MATCH rules that match nothing (pattern `zz-none*`) but carry every shape of
    /// the optional `IN <prefix>` clauses: absent, empty, non-empty
    PermissiveWithMatch,
}

#[derive(Clone, Copy, Debug)]
pub struct Cfg {
    pub min_steps: usize,
    pub max_steps: usize,
    pub min_owners: usize,
    pub max_owners: usize,
    pub cheap: bool,
    pub max_threshold: u32,
    pub rules: RuleMode,
    pub sub_depth: usize,
    pub two_digests: bool,
    /// delegated steps may have two functionaries who each file (the same) sub-layout
    pub multi_sub: bool,
    /// cardinality tail: occasionally many owners (9..70), many functionaries (9..130) with large authorised sets,
    /// thresholds and link populations, and many steps (9, 17)
    pub big: bool,
    /// cardinality tail for the layout owners only (9..70)
    pub big_owners: bool,
}

/// Mostly a size from the small range, occasionally one from the tail.
pub fn tail_size(lo: usize, hi: usize, tail: &'static [usize]) -> BoxedStrategy<usize> {
    prop_oneof![24 => lo..=hi, 1 => (0..tail.len()).prop_map(move |i| tail[i])].boxed()
}

/// `n` Ed25519 pool keys of distinct material (n <= 200), starting at a generated offset.
pub fn many_keys(n: usize) -> BoxedStrategy<Vec<KeySpec>> {
    (0usize..200, proptest::collection::vec(any::<bool>(), n))
        .prop_map(move |(off, variants)| variants.into_iter().enumerate().map(|(i, pkcs8)| KeySpec::Ed { seed: ((off + i) % 200) as u8, pkcs8 }).collect())
        .boxed()
}

impl Cfg {
    pub fn basic() -> Cfg {
        Cfg { min_steps: 0, max_steps: 3, min_owners: 1, max_owners: 3, cheap: true, max_threshold: 3, rules: RuleMode::Permissive, sub_depth: 0, two_digests: false, multi_sub: false, big: false, big_owners: false }
    }
}

#[derive(Clone, Debug)]
pub struct StepPlan {
    pub threshold: u32,
    /// indices into the functionary list
    pub authorized: Vec<usize>,
    pub n_links: usize,
    pub materials: Artifacts,
    pub products: Artifacts,
    pub command: Vec<String>,
    pub ret: i32,
    pub sub: Option<Box<World>>,
}

fn step_plan(nfunc: usize, cfg: Cfg, owner_for_sub: Option<()>) -> BoxedStrategy<StepPlan> {
    let _ = owner_for_sub;
    (
        if cfg.big && nfunc > 8 {
            prop_oneof![
                2 => proptest::sample::subsequence((0..nfunc).collect::<Vec<_>>(), 1..=4usize),
                1 => proptest::sample::subsequence((0..nfunc).collect::<Vec<_>>(), nfunc / 2..=nfunc),
                1 => Just((0..nfunc).collect::<Vec<_>>()),
            ]
            .boxed()
        } else {
            proptest::sample::subsequence((0..nfunc).collect::<Vec<_>>(), 1..=nfunc.min(4)).boxed()
        },
        any::<prop::sample::Index>(),
        any::<prop::sample::Index>(),
        artifacts(3, cfg.two_digests),
        artifacts(3, cfg.two_digests),
        command_spec(),
        prop_oneof![3 => Just(0i32), 1 => 0i32..3],
        prop_oneof![1 => Just(true), 6 => Just(false)],
    )
        .prop_map(move |(authorized, ti, li, materials, products, command, ret, zero_t)| {
            let k = authorized.len();
            let tmax = if cfg.big && k > 8 { k } else { (cfg.max_threshold as usize).min(k).max(1) };
            let t = 1 + ti.index(tmax);
            let n_links = t + li.index(k - t + 1);
            StepPlan { threshold: if zero_t && t == 1 { 0 } else { t as u32 }, authorized, n_links, materials, products, command, ret, sub: None }
        })
        .boxed()
}

/// (world, owner keys). All checks of the verifier pass on it.
pub fn valid_world(cfg: Cfg) -> BoxedStrategy<(World, Vec<KeySpec>)> {
    let owners: BoxedStrategy<usize> = if cfg.big_owners && cfg.max_owners > 1 { prop_oneof![60 => cfg.min_owners..=cfg.max_owners, 1 => Just(9usize), 1 => Just(33usize), 1 => Just(64usize), 2 => Just(65usize), 1 => Just(70usize)].boxed() } else { (cfg.min_owners..=cfg.max_owners).boxed() };
    let funcs: BoxedStrategy<usize> = if cfg.big { tail_size(2, 5, &[9, 17, 33, 65, 70, 130]) } else { (2usize..=5).boxed() };
    (owners, funcs)
        .prop_flat_map(move |(no, nf)| {
            if no + nf > 10 {
                many_keys(no + nf).prop_map(move |ks| (ks[..no].to_vec(), ks[no..].to_vec())).boxed()
            } else {
                distinct_keys(no + nf, no + nf, cfg.cheap).prop_map(move |ks| (ks[..no].to_vec(), ks[no..].to_vec())).boxed()
            }
        })
        .prop_flat_map(move |(owners, funcs)| valid_world_with(cfg, owners, funcs))
        .boxed()
}

pub fn valid_world_with(cfg: Cfg, owners: Vec<KeySpec>, funcs: Vec<KeySpec>) -> BoxedStrategy<(World, Vec<KeySpec>)> {
    let nf = funcs.len();
    let plans = if cfg.big && nf <= 8 {
        // many steps only with few functionaries (cost)
        tail_size(cfg.min_steps, cfg.max_steps, &[9, 12, 17]).prop_flat_map(move |n| proptest::collection::vec(step_plan(nf, cfg, None), n)).boxed()
    } else {
        proptest::collection::vec(step_plan(nf, cfg, None), cfg.min_steps..=cfg.max_steps).boxed()
    };
    let subs: BoxedStrategy<Vec<Option<(World, Vec<KeySpec>)>>> = if cfg.sub_depth > 0 {
        let inner_cfg = Cfg { sub_depth: cfg.sub_depth - 1, min_owners: 1, max_owners: 1, min_steps: 0, max_steps: 2, big: false, big_owners: false, ..cfg };
        // inner functionaries are a fresh draw; the inner owner is fixed up in `assemble`
        proptest::collection::vec(proptest::option::weighted(0.5, valid_world(inner_cfg)), cfg.max_steps.max(1)).boxed()
    } else {
        Just(vec![None; cfg.max_steps.max(1)]).boxed()
    };
    (plans, subs, "[a-z ]{0,6}", any::<bool>())
        .prop_map(move |(plans, subs, readme, owners_in_table)| {
            let w = assemble(&owners, &funcs, plans, subs, readme, owners_in_table, cfg);
            (w, owners.clone())
        })
        .boxed()
}

fn assemble(
    owners: &[KeySpec],
    funcs: &[KeySpec],
    plans: Vec<StepPlan>,
    subs: Vec<Option<(World, Vec<KeySpec>)>>,
    readme: String,
    owners_in_table: bool,
    cfg: Cfg,
) -> World {
    let mut steps = vec![];
    let mut links = vec![];
    for (i, p) in plans.iter().enumerate() {
        // step names that stand in a relation to each other in half of the worlds: each a proper prefix of the next,
        // differing in letter case only, or dotted extensions of one stem
        let style = readme.bytes().fold(7u32, |h, b| h.wrapping_mul(31).wrapping_add(b as u32)) % 6;
        let name = match style {
            3 => format!("s{}", "0".repeat(i)),
            4 => match i {
                0 => "build".to_string(),
                1 => "Build".to_string(),
                2 => "BUILD".to_string(),
                3 => "buiLd".to_string(),
                _ => format!("build{}", i),
            },
            5 => format!("st{}", ".x".repeat(i)),
            _ => format!("s{}", i),
        };
        let rules = match cfg.rules {
            RuleMode::None => vec![],
            RuleMode::Permissive => vec![RuleSpec::Allow("*".into())],
            RuleMode::PermissiveWithMatch => {
                let pre = |k: usize| match k % 3 {
                    0 => None,
                    1 => Some(String::new()),
                    _ => Some("d".to_string()),
                };
                vec![
                    RuleSpec::Match { pattern: "zz-none*".into(), in_src: pre(i), products: i % 2 == 0, in_dst: pre(i / 3 + 1), from: name.clone() },
                    RuleSpec::Allow("*".into()),
                ]
            }
        };
        let auth: Vec<KeySpec> = p.authorized.iter().map(|a| funcs[*a].clone()).collect();
        // (worlds with more steps than generated inner worlds reuse them cyclically)
        let sub = if subs.is_empty() { None } else { subs[i % subs.len()].clone() };
        match sub {
            Some((inner, _)) => {
                // delegated step: each delegating functionary's key owns (signs) its copy of the inner layout
                let copies = if cfg.multi_sub && auth.len() >= 2 && p.n_links >= 2 { 2 } else { 1 };
                let threshold = if copies == 2 { 2 } else if p.threshold == 0 { 0 } else { 1 };
                steps.push(StepSpec { name: name.clone(), threshold, pubkeys: auth.clone(), expected_command: p.command.clone(), expected_materials: rules.clone(), expected_products: rules.clone() });
                for k in auth.iter().take(copies) {
                    let mut copy = inner.clone();
                    copy.sigs = vec![SigEntry::good(k)];
                    links.push(LinkFile { step: name.clone(), filed_under: k.clone(), name_field: None, symlink_store: false, body: Body::Sub { world: Box::new(copy), placement: Placement::Proper } });
                }
            }
            None => {
                steps.push(StepSpec { name: name.clone(), threshold: p.threshold, pubkeys: auth.clone(), expected_command: p.command.clone(), expected_materials: rules.clone(), expected_products: rules.clone() });
                for k in auth.iter().take(p.n_links) {
                    let link = LinkSpec {
                        name: name.clone(),
                        materials: p.materials.clone(),
                        products: p.products.clone(),
                        env: None,
                        byproducts: ByprodSpec { return_value: Some(p.ret), stdout: Some(String::new()), stderr: Some(String::new()), other: Default::default() },
                        command: p.command.clone(),
                    };
                    links.push(LinkFile { step: name.clone(), filed_under: k.clone(), name_field: None, symlink_store: false, body: Body::Link { link, sigs: vec![SigEntry::good(k)], tamper: None } });
                }
            }
        }
    }
    let mut keys: Vec<KeySpec> = funcs.to_vec();
    if owners_in_table {
        keys.extend(owners.iter().cloned());
    }
    World {
        layout: LayoutSpec { expires: 4_000_000_000, readme, keys, steps, inspect: vec![] },
        sigs: owners.iter().map(SigEntry::good).collect(),
        tamper: None,
        links,
    }
}

/// Keys (other than `except`) usable as strangers: fresh Ed25519 seeds outside the pool range.
/// 112 further stranger identities (56 seeds outside the pool, each under both of its key ids).
pub fn stranger_wide(i: usize) -> KeySpec {
    KeySpec::Ed { seed: 200 + (i % 56) as u8, pkcs8: (i / 56) % 2 == 0 }
}

pub fn stranger(i: u8) -> KeySpec {
    KeySpec::Ed { seed: 200u8.wrapping_add(i % 40), pkcs8: true }
}
