//! Strategies for valid end-to-end worlds; properties inject their own faults.

use proptest::prelude::*;

use crate::gen::keys::*;
use crate::gen::meta::*;
use crate::world::*;

#[derive(Clone, Copy, Debug, PartialEq, Eq)]
pub enum RuleMode {
    None,
    Permissive,
    /// `ALLOW *` preceded by MATCH rules that match nothing (pattern `zz-none*`) but carry every shape of
    /// the optional `IN <prefix>` clauses: absent, empty, non-empty
    PermissiveWithMatch,
}

#[derive(Clone, Copy, Debug)]
pub struct Cfg {
    pub min_steps: usize,
    pub max_steps: usize,
    pub min_owners: usize,
    pub max_owners: usize,
    pub cheap: bool,
    pub max_threshold: u32,
    pub rules: RuleMode,
    pub sub_depth: usize,
    pub two_digests: bool,
    /// delegated steps may have two functionaries who each file (the same) sub-layout
    pub multi_sub: bool,
}

impl Cfg {
    pub fn basic() -> Cfg {
        Cfg { min_steps: 0, max_steps: 3, min_owners: 1, max_owners: 3, cheap: true, max_threshold: 3, rules: RuleMode::Permissive, sub_depth: 0, two_digests: false, multi_sub: false }
    }
}

#[derive(Clone, Debug)]
pub struct StepPlan {
    pub threshold: u32,
    /// indices into the functionary list
    pub authorized: Vec<usize>,
    pub n_links: usize,
    pub materials: Artifacts,
    pub products: Artifacts,
    pub command: Vec<String>,
    pub ret: i32,
    pub sub: Option<Box<World>>,
}

fn step_plan(nfunc: usize, cfg: Cfg, owner_for_sub: Option<()>) -> BoxedStrategy<StepPlan> {
    let _ = owner_for_sub;
    (
        proptest::sample::subsequence((0..nfunc).collect::<Vec<_>>(), 1..=nfunc.min(4)),
        any::<prop::sample::Index>(),
        any::<prop::sample::Index>(),
        artifacts(3, cfg.two_digests),
        artifacts(3, cfg.two_digests),
        command_spec(),
        prop_oneof![3 => Just(0i32), 1 => 0i32..3],
        prop_oneof![1 => Just(true), 6 => Just(false)],
    )
        .prop_map(move |(authorized, ti, li, materials, products, command, ret, zero_t)| {
            let k = authorized.len();
            let tmax = (cfg.max_threshold as usize).min(k).max(1);
            let t = 1 + ti.index(tmax);
            let n_links = t + li.index(k - t + 1);
            StepPlan { threshold: if zero_t && t == 1 { 0 } else { t as u32 }, authorized, n_links, materials, products, command, ret, sub: None }
        })
        .boxed()
}

/// (world, owner keys). All checks of the verifier pass on it.
pub fn valid_world(cfg: Cfg) -> BoxedStrategy<(World, Vec<KeySpec>)> {
    let owners = cfg.min_owners..=cfg.max_owners;
    (owners, 2usize..=5)
        .prop_flat_map(move |(no, nf)| distinct_keys(no + nf, no + nf, cfg.cheap).prop_map(move |ks| (ks[..no].to_vec(), ks[no..].to_vec())))
        .prop_flat_map(move |(owners, funcs)| valid_world_with(cfg, owners, funcs))
        .boxed()
}

pub fn valid_world_with(cfg: Cfg, owners: Vec<KeySpec>, funcs: Vec<KeySpec>) -> BoxedStrategy<(World, Vec<KeySpec>)> {
    let nf = funcs.len();
    let plans = proptest::collection::vec(step_plan(nf, cfg, None), cfg.min_steps..=cfg.max_steps);
    let subs: BoxedStrategy<Vec<Option<(World, Vec<KeySpec>)>>> = if cfg.sub_depth > 0 {
        let inner_cfg = Cfg { sub_depth: cfg.sub_depth - 1, min_owners: 1, max_owners: 1, min_steps: 0, max_steps: 2, ..cfg };
        // inner functionaries are a fresh draw; the inner owner is fixed up in `assemble`
        proptest::collection::vec(proptest::option::weighted(0.5, valid_world(inner_cfg)), cfg.max_steps.max(1)).boxed()
    } else {
        Just(vec![None; cfg.max_steps.max(1)]).boxed()
    };
    (plans, subs, "[a-z ]{0,6}", any::<bool>())
        .prop_map(move |(plans, subs, readme, owners_in_table)| {
            let w = assemble(&owners, &funcs, plans, subs, readme, owners_in_table, cfg);
            (w, owners.clone())
        })
        .boxed()
}

fn assemble(
    owners: &[KeySpec],
    funcs: &[KeySpec],
    plans: Vec<StepPlan>,
    subs: Vec<Option<(World, Vec<KeySpec>)>>,
    readme: String,
    owners_in_table: bool,
    cfg: Cfg,
) -> World {
    let mut steps = vec![];
    let mut links = vec![];
    for (i, p) in plans.iter().enumerate() {
        let name = format!("s{}", i);
        let rules = match cfg.rules {
            RuleMode::None => vec![],
            RuleMode::Permissive => vec![RuleSpec::Allow("*".into())],
            RuleMode::PermissiveWithMatch => {
                let pre = |k: usize| match k % 3 {
                    0 => None,
                    1 => Some(String::new()),
                    _ => Some("d".to_string()),
                };
                vec![
                    RuleSpec::Match { pattern: "zz-none*".into(), in_src: pre(i), products: i % 2 == 0, in_dst: pre(i / 3 + 1), from: name.clone() },
                    RuleSpec::Allow("*".into()),
                ]
            }
        };
        let auth: Vec<KeySpec> = p.authorized.iter().map(|a| funcs[*a].clone()).collect();
        let sub = subs.get(i).cloned().flatten();
        match sub {
            Some((inner, _)) => {
                // delegated step: each delegating functionary's key owns (signs) its copy of the inner layout
                let copies = if cfg.multi_sub && auth.len() >= 2 && p.n_links >= 2 { 2 } else { 1 };
                let threshold = if copies == 2 { 2 } else if p.threshold == 0 { 0 } else { 1 };
                steps.push(StepSpec { name: name.clone(), threshold, pubkeys: auth.clone(), expected_command: p.command.clone(), expected_materials: rules.clone(), expected_products: rules.clone() });
                for k in auth.iter().take(copies) {
                    let mut copy = inner.clone();
                    copy.sigs = vec![SigEntry::good(k)];
                    links.push(LinkFile { step: name.clone(), filed_under: k.clone(), name_field: None, symlink_store: false, body: Body::Sub { world: Box::new(copy), placement: Placement::Proper } });
                }
            }
            None => {
                steps.push(StepSpec { name: name.clone(), threshold: p.threshold, pubkeys: auth.clone(), expected_command: p.command.clone(), expected_materials: rules.clone(), expected_products: rules.clone() });
                for k in auth.iter().take(p.n_links) {
                    let link = LinkSpec {
                        name: name.clone(),
                        materials: p.materials.clone(),
                        products: p.products.clone(),
                        env: None,
                        byproducts: ByprodSpec { return_value: Some(p.ret), stdout: Some(String::new()), stderr: Some(String::new()), other: Default::default() },
                        command: p.command.clone(),
                    };
                    links.push(LinkFile { step: name.clone(), filed_under: k.clone(), name_field: None, symlink_store: false, body: Body::Link { link, sigs: vec![SigEntry::good(k)], tamper: None } });
                }
            }
        }
    }
    let mut keys: Vec<KeySpec> = funcs.to_vec();
    if owners_in_table {
        keys.extend(owners.iter().cloned());
    }
    World {
        layout: LayoutSpec { expires: 4_000_000_000, readme, keys, steps, inspect: vec![] },
        sigs: owners.iter().map(SigEntry::good).collect(),
        tamper: None,
        links,
    }
}

/// Keys (other than `except`) usable as strangers: fresh Ed25519 seeds outside the pool range.
pub fn stranger(i: u8) -> KeySpec {
    KeySpec::Ed { seed: 200u8.wrapping_add(i % 40), pkcs8: true }
}
