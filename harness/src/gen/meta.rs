//! Plain specifications of links and layouts, conversion to library values
//! (through the library's builders) and, independently, to wire JSON.

use std::collections::{BTreeMap, HashMap};

use chrono::{DateTime, TimeZone, Utc};
use in_toto::crypto::{HashAlgorithm, HashValue};
use in_toto::models::byproducts::ByProducts;
use in_toto::models::inspection::Inspection;
use in_toto::models::rule::{Artifact, ArtifactRule};
use in_toto::models::step::{Command, Step};
use in_toto::models::{
    LayoutMetadata, LayoutMetadataBuilder, LinkMetadata, LinkMetadataBuilder, TargetDescription, VirtualTargetPath,
};
use proptest::prelude::*;
use serde::{Deserialize, Serialize};
use serde_json::{json, Value};

use crate::gen::keys::*;
use crate::gen::text::*;

pub type Digests = BTreeMap<String, String>; // algorithm -> lower-case hex
pub type Artifacts = BTreeMap<String, Digests>;

#[derive(Clone, Debug, PartialEq, Eq, Serialize, Deserialize, Default)]
pub struct ByprodSpec {
    pub return_value: Option<i32>,
    pub stdout: Option<String>,
    pub stderr: Option<String>,
    pub other: BTreeMap<String, String>,
}

#[derive(Clone, Debug, PartialEq, Eq, Serialize, Deserialize, Default)]
pub struct LinkSpec {
    pub name: String,
    pub materials: Artifacts,
    pub products: Artifacts,
    pub env: Option<BTreeMap<String, String>>,
    pub byproducts: ByprodSpec,
    pub command: Vec<String>,
}

#[derive(Clone, Debug, PartialEq, Eq, Serialize, Deserialize)]
pub enum RuleSpec {
    Create(String),
    Delete(String),
    Modify(String),
    Allow(String),
    Require(String),
    Disallow(String),
    Match { pattern: String, in_src: Option<String>, products: bool, in_dst: Option<String>, from: String },
}

impl RuleSpec {
    pub fn kind(&self) -> &'static str {
        match self {
            RuleSpec::Create(_) => "CREATE",
            RuleSpec::Delete(_) => "DELETE",
            RuleSpec::Modify(_) => "MODIFY",
            RuleSpec::Allow(_) => "ALLOW",
            RuleSpec::Require(_) => "REQUIRE",
            RuleSpec::Disallow(_) => "DISALLOW",
            RuleSpec::Match { .. } => "MATCH",
        }
    }
    pub fn pattern(&self) -> &str {
        match self {
            RuleSpec::Create(p) | RuleSpec::Delete(p) | RuleSpec::Modify(p) | RuleSpec::Allow(p)
            | RuleSpec::Require(p) | RuleSpec::Disallow(p) => p,
            RuleSpec::Match { pattern, .. } => pattern,
        }
    }
    pub fn to_lib(&self) -> ArtifactRule {
        let vp = |s: &str| VirtualTargetPath::new(s.to_string()).expect("vtp");
        match self {
            RuleSpec::Create(p) => ArtifactRule::Create(vp(p)),
            RuleSpec::Delete(p) => ArtifactRule::Delete(vp(p)),
            RuleSpec::Modify(p) => ArtifactRule::Modify(vp(p)),
            RuleSpec::Allow(p) => ArtifactRule::Allow(vp(p)),
            RuleSpec::Require(p) => ArtifactRule::Require(vp(p)),
            RuleSpec::Disallow(p) => ArtifactRule::Disallow(vp(p)),
            RuleSpec::Match { pattern, in_src, products, in_dst, from } => ArtifactRule::Match {
                pattern: vp(pattern),
                in_src: in_src.clone(),
                with: if *products { Artifact::Products } else { Artifact::Materials },
                in_dst: in_dst.clone(),
                from: from.clone(),
            },
        }
    }
    /// The rule as the specification writes it on the wire.
    pub fn to_wire(&self) -> Value {
        match self {
            RuleSpec::Match { pattern, in_src, products, in_dst, from } => {
                let mut v = vec![json!("MATCH"), json!(pattern)];
                if let Some(s) = in_src {
                    v.push(json!("IN"));
                    v.push(json!(s));
                }
                v.push(json!("WITH"));
                v.push(json!(if *products { "PRODUCTS" } else { "MATERIALS" }));
                if let Some(d) = in_dst {
                    v.push(json!("IN"));
                    v.push(json!(d));
                }
                v.push(json!("FROM"));
                v.push(json!(from));
                Value::Array(v)
            }
            other => json!([other.kind(), other.pattern()]),
        }
    }
}

#[derive(Clone, Debug, PartialEq, Eq, Serialize, Deserialize)]
pub struct StepSpec {
    pub name: String,
    pub threshold: u32,
    pub pubkeys: Vec<KeySpec>,
    pub expected_command: Vec<String>,
    pub expected_materials: Vec<RuleSpec>,
    pub expected_products: Vec<RuleSpec>,
}

#[derive(Clone, Debug, PartialEq, Eq, Serialize, Deserialize)]
pub struct InspSpec {
    pub name: String,
    pub run: Vec<String>,
    pub expected_materials: Vec<RuleSpec>,
    pub expected_products: Vec<RuleSpec>,
}

#[derive(Clone, Debug, PartialEq, Eq, Serialize, Deserialize)]
pub struct LayoutSpec {
    /// expiry, seconds since the epoch
    pub expires: i64,
    pub readme: String,
    pub keys: Vec<KeySpec>,
    pub steps: Vec<StepSpec>,
    pub inspect: Vec<InspSpec>,
}

pub fn hash_alg(name: &str) -> HashAlgorithm {
    match name {
        "sha256" => HashAlgorithm::Sha256,
        "sha512" => HashAlgorithm::Sha512,
        other => HashAlgorithm::Unknown(other.to_string()),
    }
}

pub fn unhex(s: &str) -> Vec<u8> {
    data_encoding::HEXLOWER_PERMISSIVE.decode(s.as_bytes()).expect("hex")
}

pub fn artifacts_to_lib(a: &Artifacts) -> BTreeMap<VirtualTargetPath, TargetDescription> {
    a.iter()
        .map(|(p, d)| {
            let td: HashMap<HashAlgorithm, HashValue> =
                d.iter().map(|(alg, hex)| (hash_alg(alg), HashValue::new(unhex(hex)))).collect();
            (VirtualTargetPath::new(p.clone()).expect("vtp"), td)
        })
        .collect()
}

pub fn artifacts_from_lib(a: &BTreeMap<VirtualTargetPath, TargetDescription>) -> Artifacts {
    a.iter()
        .map(|(p, d)| {
            (
                p.value().to_string(),
                d.iter()
                    .map(|(alg, v)| {
                        let name = match alg {
                            HashAlgorithm::Sha256 => "sha256".to_string(),
                            HashAlgorithm::Sha512 => "sha512".to_string(),
                            HashAlgorithm::Unknown(s) => s.clone(),
                        };
                        (name, data_encoding::HEXLOWER.encode(v.value()))
                    })
                    .collect(),
            )
        })
        .collect()
}

pub fn ts(secs: i64) -> DateTime<Utc> {
    Utc.timestamp_opt(secs, 0).single().expect("timestamp")
}

pub fn rfc3339_z(secs: i64) -> String {
    // independent rendering: civil-from-days algorithm (Howard Hinnant)
    let days = secs.div_euclid(86400);
    let rem = secs.rem_euclid(86400);
    let z = days + 719468;
    let era = z.div_euclid(146097);
    let doe = z.rem_euclid(146097);
    let yoe = (doe - doe / 1460 + doe / 36524 - doe / 146096) / 365;
    let y = yoe + era * 400;
    let doy = doe - (365 * yoe + yoe / 4 - yoe / 100);
    let mp = (5 * doy + 2) / 153;
    let d = doy - (153 * mp + 2) / 5 + 1;
    let m = if mp < 10 { mp + 3 } else { mp - 9 };
    let y = if m <= 2 { y + 1 } else { y };
    format!("{:04}-{:02}-{:02}T{:02}:{:02}:{:02}Z", y, m, d, rem / 3600, (rem % 3600) / 60, rem % 60)
}

impl ByprodSpec {
    pub fn to_lib(&self) -> ByProducts {
        let mut b = ByProducts::new();
        if let Some(r) = self.return_value {
            b = b.set_return_value(r);
        }
        if let Some(s) = &self.stdout {
            b = b.set_stdout(s.clone());
        }
        if let Some(s) = &self.stderr {
            b = b.set_stderr(s.clone());
        }
        b.set_other_fields(self.other.clone())
    }
    pub fn from_lib(b: &ByProducts) -> Self {
        ByprodSpec {
            return_value: b.return_value(),
            stdout: b.stdout().clone(),
            stderr: b.stderr().clone(),
            other: b.other_fields().clone(),
        }
    }
    pub fn to_wire(&self) -> Value {
        let mut m = serde_json::Map::new();
        if let Some(r) = self.return_value {
            m.insert("return-value".into(), json!(r));
        }
        if let Some(s) = &self.stdout {
            m.insert("stdout".into(), json!(s));
        }
        if let Some(s) = &self.stderr {
            m.insert("stderr".into(), json!(s));
        }
        for (k, v) in &self.other {
            m.insert(k.clone(), json!(v));
        }
        Value::Object(m)
    }
}

impl LinkSpec {
    pub fn to_builder(&self) -> LinkMetadataBuilder {
        LinkMetadataBuilder::new()
            .name(self.name.clone())
            .materials(artifacts_to_lib(&self.materials))
            .products(artifacts_to_lib(&self.products))
            .env(self.env.clone())
            .byproducts(self.byproducts.to_lib())
            .command(Command::from(self.command.clone()))
    }
    pub fn to_lib(&self) -> LinkMetadata {
        self.to_builder().build().expect("link build")
    }
    pub fn from_lib(l: &LinkMetadata) -> Self {
        LinkSpec {
            name: l.name.clone(),
            materials: artifacts_from_lib(&l.materials),
            products: artifacts_from_lib(&l.products),
            env: l.env.clone(),
            byproducts: ByprodSpec::from_lib(&l.byproducts),
            command: l.command.as_ref().to_vec(),
        }
    }
    /// Wire form as the reference implementation writes it.
    pub fn to_wire(&self) -> Value {
        json!({
            "_type": "link",
            "name": self.name,
            "materials": self.materials,
            "products": self.products,
            "environment": self.env,
            "byproducts": self.byproducts.to_wire(),
            "command": self.command,
        })
    }
}

impl StepSpec {
    pub fn to_lib(&self) -> Step {
        let mut s = Step::new(&self.name)
            .threshold(self.threshold)
            .expected_command(Command::from(self.expected_command.clone()))
            .expected_materials(self.expected_materials.iter().map(|r| r.to_lib()).collect())
            .expected_products(self.expected_products.iter().map(|r| r.to_lib()).collect());
        for k in &self.pubkeys {
            s = s.add_key(key_id(k));
        }
        s
    }
    pub fn to_wire(&self) -> Value {
        json!({
            "_type": "step",
            "name": self.name,
            "threshold": self.threshold,
            "pubkeys": self.pubkeys.iter().map(key_id_str).collect::<Vec<_>>(),
            "expected_command": self.expected_command,
            "expected_materials": self.expected_materials.iter().map(|r| r.to_wire()).collect::<Vec<_>>(),
            "expected_products": self.expected_products.iter().map(|r| r.to_wire()).collect::<Vec<_>>(),
        })
    }
}

impl InspSpec {
    pub fn to_lib(&self) -> Inspection {
        Inspection::new(&self.name)
            .run(Command::from(self.run.clone()))
            .expected_materials(self.expected_materials.iter().map(|r| r.to_lib()).collect())
            .expected_products(self.expected_products.iter().map(|r| r.to_lib()).collect())
    }
    pub fn to_wire(&self) -> Value {
        json!({
            "_type": "inspection",
            "name": self.name,
            "run": self.run,
            "expected_materials": self.expected_materials.iter().map(|r| r.to_wire()).collect::<Vec<_>>(),
            "expected_products": self.expected_products.iter().map(|r| r.to_wire()).collect::<Vec<_>>(),
        })
    }
}

impl LayoutSpec {
    pub fn to_lib(&self) -> LayoutMetadata {
        let mut b = LayoutMetadataBuilder::new().expires(ts(self.expires)).readme(self.readme.clone());
        for k in &self.keys {
            b = b.add_key(public(k));
        }
        b.steps(self.steps.iter().map(|s| s.to_lib()).collect())
            .inspects(self.inspect.iter().map(|s| s.to_lib()).collect())
            .build()
            .expect("layout build")
    }
    /// Wire form as the reference implementation writes it. Key entries are rendered by
    /// `crate::model::keyid::key_wire`.
    pub fn to_wire(&self) -> Value {
        let mut keys = serde_json::Map::new();
        for k in &self.keys {
            let (id, doc) = crate::model::keyid::key_wire(k);
            keys.insert(id, doc);
        }
        json!({
            "_type": "layout",
            "expires": rfc3339_z(self.expires),
            "readme": self.readme,
            "keys": keys,
            "steps": self.steps.iter().map(|s| s.to_wire()).collect::<Vec<_>>(),
            "inspect": self.inspect.iter().map(|s| s.to_wire()).collect::<Vec<_>>(),
        })
    }
}

// ---------------------------------------------------------------------------
// strategies

pub const DIGEST_POOL_256: &[&str] = &[
    "aaaaaaaaaaaaaaaaaaaaaaaaaaaaaaaaaaaaaaaaaaaaaaaaaaaaaaaaaaaaaaaa",
    "bbbbbbbbbbbbbbbbbbbbbbbbbbbbbbbbbbbbbbbbbbbbbbbbbbbbbbbbbbbbbbbb",
    "e3b0c44298fc1c149afbf4c8996fb92427ae41e4649b934ca495991b7852b855",
];
pub const DIGEST_POOL_512: &[&str] = &[
    "cccccccccccccccccccccccccccccccccccccccccccccccccccccccccccccccccccccccccccccccccccccccccccccccccccccccccccccccccccccccccccccccc",
    "dddddddddddddddddddddddddddddddddddddddddddddddddddddddddddddddddddddddddddddddddddddddddddddddddddddddddddddddddddddddddddddddd",
];

/// Digest maps with one algorithm (most) or two.
pub fn digests(allow_two: bool) -> BoxedStrategy<Digests> {
    let one256 = (0..DIGEST_POOL_256.len())
        .prop_map(|i| BTreeMap::from([("sha256".to_string(), DIGEST_POOL_256[i].to_string())]));
    let one512 = (0..DIGEST_POOL_512.len())
        .prop_map(|i| BTreeMap::from([("sha512".to_string(), DIGEST_POOL_512[i].to_string())]));
    let two = (0..DIGEST_POOL_256.len(), 0..DIGEST_POOL_512.len()).prop_map(|(i, j)| {
        BTreeMap::from([
            ("sha256".to_string(), DIGEST_POOL_256[i].to_string()),
            ("sha512".to_string(), DIGEST_POOL_512[j].to_string()),
        ])
    });
    if allow_two {
        prop_oneof![6 => one256, 1 => one512, 2 => two].boxed()
    } else {
        prop_oneof![6 => one256, 1 => one512].boxed()
    }
}

pub const SEGMENTS: &[&str] = &["a", "b", "src", "foo.py", "x.tar.gz", "d", "bar", "a.b", "ab", "srcfoo.py", "a/b", "Foo.py", "A", "foo.pyc", "x.tar"];

/// Normalised relative path from a small alphabet, with a low-weight exotic tail.
pub fn relpath() -> BoxedStrategy<String> {
    let seg = prop_oneof![
        12 => (0..SEGMENTS.len()).prop_map(|i| SEGMENTS[i].to_string()),
        1 => prop_oneof![Just("with space".to_string()), Just("ünï".to_string()), Just(".hidden".to_string()), Just("中".to_string()), Just("tab\there".to_string()), Just("line\nbreak".to_string()), Just("q\"uote".to_string()), Just("back\\slash".to_string()), Just("é \"x\"".to_string())],
        // names starting at the edges of the UTF-8 / UTF-16 encoding ranges (1|2, 2|3, surrogate gap, 3|4 byte, last scalar)
        1 => prop_oneof![Just("\u{7f}e".to_string()), Just("\u{80}e".to_string()), Just("\u{7ff}e".to_string()), Just("\u{800}e".to_string()), Just("\u{d7ff}e".to_string()),
            Just("\u{e000}e".to_string()), Just("\u{fffe}e".to_string()), Just("\u{ffff}e".to_string()), Just("\u{10000}e".to_string()), Just("😀.bin".to_string()), Just("\u{10ffff}".to_string())],
    ];
    proptest::collection::vec(seg, 1..=3).prop_map(|v| v.join("/")).boxed()
}

pub fn artifacts(max: usize, two_digests: bool) -> BoxedStrategy<Artifacts> {
    prop_oneof![
        40 => proptest::collection::btree_map(relpath(), digests(two_digests), 0..=max),
        // cardinality tail: many artifacts (programmatic names around a few generated ones)
        1 => (proptest::collection::btree_map(relpath(), digests(two_digests), 0..=max), prop_oneof![Just(9usize), Just(17), Just(33), Just(65), Just(130), Just(300), Just(700), Just(1200)], digests(two_digests))
            .prop_map(|(mut m, n, d)| {
                for i in 0..n {
                    m.insert(format!("vendor/dep{:04}", i), d.clone());
                }
                m
            }),
    ]
    .boxed()
}

/// Strings for free-text fields.
pub fn free_text() -> BoxedStrategy<String> {
    prop_oneof![3 => "[a-z ]{0,10}".prop_map(|s| s), 5 => text(10)].boxed()
}

pub fn byproducts_spec() -> BoxedStrategy<ByprodSpec> {
    (
        proptest::option::weighted(0.7, prop_oneof![Just(0i32), Just(1), any::<i32>(), Just(i32::MIN), Just(i32::MAX), Just(255)]),
        proptest::option::weighted(0.7, free_text()),
        proptest::option::weighted(0.7, free_text()),
        proptest::collection::btree_map(
            text(6).prop_filter("reserved", |k| k != "return-value" && k != "stdout" && k != "stderr"),
            free_text(),
            0..3,
        ),
    )
        .prop_map(|(return_value, stdout, stderr, other)| ByprodSpec { return_value, stdout, stderr, other })
        .boxed()
}

pub fn command_spec() -> BoxedStrategy<Vec<String>> {
    proptest::collection::vec(prop_oneof![3 => "[a-z-]{1,6}".prop_map(|s| s), 2 => text(6)], 0..4).boxed()
}

pub fn env_spec() -> BoxedStrategy<Option<BTreeMap<String, String>>> {
    prop_oneof![
        2 => Just(None),
        1 => Just(Some(BTreeMap::new())),
        3 => proptest::collection::btree_map(text(5), free_text(), 1..3).prop_map(Some),
    ]
    .boxed()
}

/// Another spelling of a path that a recorder other than runlib may have written (not normalised).
pub fn respelled_path(k: &str, how: u8) -> String {
    match how % 7 {
        0 => format!("./{}", k),
        1 => format!("{}/", k),
        2 => format!("x/../{}", k),
        3 => format!("d//{}", k),
        4 => format!("d///{}", k),
        5 => format!("file:///srv/{}", k),
        _ => format!("{}/.", k),
    }
}

pub fn link_spec(rich_text: bool) -> BoxedStrategy<LinkSpec> {
    let name = if rich_text { ident() } else { "[a-z]{1,6}".prop_map(|s| s).boxed() };
    // format-level documents (rich text): one artifact in seven links is recorded under a non-normalised spelling
    let respell = if rich_text { prop_oneof![6 => Just(None), 1 => (any::<u8>(), any::<u8>()).prop_map(Some)].boxed() } else { Just(None).boxed() };
    (name, artifacts(4, true), artifacts(4, true), env_spec(), byproducts_spec(), command_spec(), respell)
        .prop_map(|(name, mut materials, mut products, env, byproducts, command, respell)| {
            if let Some((sel, how)) = respell {
                let side = if sel % 2 == 0 && !materials.is_empty() { &mut materials } else { &mut products };
                let keys: Vec<String> = side.keys().cloned().collect();
                if !keys.is_empty() {
                    let k = keys[(sel as usize / 2) % keys.len()].clone();
                    let nk = respelled_path(&k, how);
                    if !side.contains_key(&nk) {
                        if sel & 0x80 != 0 {
                            // both spellings side by side, with different digests (`d//k` next to `d/k`)
                            let v = side[&k].clone();
                            let other: Digests = [("sha256".to_string(), DIGEST_POOL_256[if v.get("sha256").map(|x| x.as_str()) == Some(DIGEST_POOL_256[0]) { 1 } else { 0 }].to_string())].into();
                            if nk.starts_with("d//") {
                                side.insert(format!("d/{}", k), v.clone());
                            }
                            side.insert(nk, other);
                        } else {
                            let v = side.remove(&k).unwrap();
                            side.insert(nk, v);
                        }
                    }
                }
            }
            LinkSpec { name, materials, products, env, byproducts, command }
        })
        .boxed()
}

pub const PATTERNS: &[&str] = &["*", "a", "foo.py", "*.py", "src/*", "a/*", "?", "[ab]", "[!a]*", "x.tar.gz", "a/b", "*/foo.py", "b*", "d"];

pub fn pattern() -> BoxedStrategy<String> {
    prop_oneof![
        5 => (0..PATTERNS.len()).prop_map(|i| PATTERNS[i].to_string()),
        3 => relpath(),
    ]
    .boxed()
}

pub fn prefix() -> BoxedStrategy<String> {
    prop_oneof![Just("a"), Just("src"), Just("d"), Just("a/b"), Just("b")].prop_map(|s| s.to_string()).boxed()
}

pub fn rule_spec(step_names: Vec<String>) -> BoxedStrategy<RuleSpec> {
    let names = if step_names.is_empty() { vec!["nostep".to_string()] } else { step_names };
    let n = names.len();
    let from = prop_oneof![8 => (0..n).prop_map(move |i| names[i].clone()), 1 => Just("absent-step".to_string())];
    prop_oneof![
        2 => pattern().prop_map(RuleSpec::Create),
        1 => pattern().prop_map(RuleSpec::Delete),
        1 => pattern().prop_map(RuleSpec::Modify),
        2 => pattern().prop_map(RuleSpec::Allow),
        1 => pattern().prop_map(RuleSpec::Require),
        2 => pattern().prop_map(RuleSpec::Disallow),
        4 => (pattern(), proptest::option::weighted(0.4, prefix()), any::<bool>(), proptest::option::weighted(0.4, prefix()), from)
            .prop_map(|(pattern, in_src, products, in_dst, from)| RuleSpec::Match { pattern, in_src, products, in_dst, from }),
    ]
    .boxed()
}

pub fn rules(step_names: Vec<String>, max: usize) -> BoxedStrategy<Vec<RuleSpec>> {
    proptest::collection::vec(rule_spec(step_names), 0..=max).boxed()
}

pub fn expiry_secs() -> BoxedStrategy<i64> {
    prop_oneof![
        4 => 4_000_000_000i64..4_100_000_000,
        2 => 0i64..253_402_300_799,
        1 => Just(0i64),
        1 => Just(253_402_300_799i64),
    ]
    .boxed()
}

/// A layout with arbitrary (not necessarily satisfiable) content: for serialisation-level properties.
pub fn layout_spec(rich_text: bool, cheap_keys: bool) -> BoxedStrategy<LayoutSpec> {
    let names = proptest::collection::btree_set(if rich_text { ident() } else { "[a-z]{1,5}".prop_map(|s| s).boxed() }, 0..4);
    (names, distinct_keys(0, 3, cheap_keys), expiry_secs(), if rich_text { free_text() } else { "[a-z ]{0,8}".prop_map(|s| s).boxed() })
        .prop_flat_map(|(names, keys, expires, readme)| {
            let names: Vec<String> = names.into_iter().collect();
            let nk = keys.len();
            let steps: Vec<BoxedStrategy<StepSpec>> = names
                .iter()
                .map(|n| {
                    let n = n.clone();
                    let keys = keys.clone();
                    (
                        prop_oneof![4 => 0u32..4, 1 => Just(u32::MAX), 1 => any::<u32>()],
                        proptest::collection::vec(0..nk.max(1), 0..=nk),
                        command_spec(),
                        rules(names.clone(), 3),
                        rules(names.clone(), 3),
                    )
                        .prop_map(move |(threshold, ks, expected_command, expected_materials, expected_products)| {
                            let mut pubkeys: Vec<KeySpec> = vec![];
                            for i in ks {
                                if let Some(k) = keys.get(i) {
                                    if !pubkeys.contains(k) {
                                        pubkeys.push(k.clone());
                                    }
                                }
                            }
                            StepSpec { name: n.clone(), threshold, pubkeys, expected_command, expected_materials, expected_products }
                        })
                        .boxed()
                })
                .collect();
            let insp = proptest::collection::vec(
                ("[a-z]{1,5}", command_spec(), rules(names.clone(), 2), rules(names.clone(), 2)).prop_map(
                    |(name, run, expected_materials, expected_products)| InspSpec { name: format!("i-{}", name), run, expected_materials, expected_products },
                ),
                0..3,
            );
            (steps, insp).prop_map(move |(steps, inspect)| LayoutSpec {
                expires,
                readme: readme.clone(),
                keys: keys.clone(),
                steps,
                inspect,
            })
        })
        .boxed()
}
