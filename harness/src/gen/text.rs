//! Text generators biased to the characters where encodings differ.

use proptest::prelude::*;

/// Characters that matter for JSON / canonical-JSON / path handling.
pub const SPECIAL: &[char] = &[
    '\\', '"', 'n', '\n', '\r', '\t', 'u', '/', '\u{0}', '\u{1}', '\u{8}', '\u{c}', '\u{1f}', '\u{7f}',
    '\u{80}', '\u{9f}', '\u{a0}', '\u{2028}', '\u{2029}', '\u{d7ff}', '\u{e000}', '\u{fffd}',
    '\u{fffe}', '\u{ffff}', '\u{10000}', '\u{1f600}', '\u{10ffff}', '\u{301}', 'é', 'ß', '中', ' ',
    '0', '1', 'a', 'A', '{', '}', '[', ']', ':', ',', '*', '?', '.', '-', '+', '\'',
];

pub fn special_char() -> impl Strategy<Value = char> {
    (0..SPECIAL.len()).prop_map(|i| SPECIAL[i])
}

pub fn any_char() -> impl Strategy<Value = char> {
    prop_oneof![
        6 => special_char(),
        2 => proptest::char::range('a', 'z'),
        1 => proptest::char::range(' ', '~'),
        1 => any::<char>(),
    ]
}

/// Unicode text, length 0..=max chars, with a small weight for long strings.
pub fn text(max: usize) -> BoxedStrategy<String> {
    prop_oneof![
        1 => Just(String::new()),
        10 => proptest::collection::vec(any_char(), 0..=max).prop_map(|v| v.into_iter().collect::<String>()),
        3 => proptest::collection::vec(special_char(), 1..=4).prop_map(|v| v.into_iter().collect::<String>()),
    ]
    .boxed()
}

/// Plain identifier-like text (names of steps etc.) with occasional special chars.
pub fn ident() -> BoxedStrategy<String> {
    prop_oneof![
        8 => "[a-z][a-z0-9_-]{0,8}".prop_map(|s| s),
        2 => text(6).prop_filter("non-empty", |s| !s.is_empty()),
    ]
    .boxed()
}

/// The exhaustive two-character table over the escape-relevant alphabet.
pub const TWO_CHAR_ALPHABET: &[char] = &['\\', '"', 'n', '\n', 't', '\t', 'u', '/'];

pub fn two_char_table() -> Vec<String> {
    let mut v = vec![];
    for a in TWO_CHAR_ALPHABET {
        for b in TWO_CHAR_ALPHABET {
            v.push(format!("{}{}", a, b));
        }
    }
    v
}
