//! Text generators biased to the characters where encodings differ.

use proptest::prelude::*;

/// Characters that matter for JSON / canonical-JSON / path handling.
pub const SPECIAL: &[char] = &[
    '\\', '"', 'n', '\n', '\r', '\t', 'u', '/', '\u{0}', '\u{1}', '\u{8}', '\u{c}', '\u{1f}', '\u{7f}',
    '\u{80}', '\u{9f}', '\u{a0}', '\u{2028}', '\u{2029}', '\u{d7ff}', '\u{e000}', '\u{fffd}',
    '\u{fffe}', '\u{ffff}', '\u{10000}', '\u{1f600}', '\u{10ffff}', '\u{301}', 'é', 'ß', '中', ' ',
    '0', '1', 'a', 'A', '{', '}', '[', ']', ':', ',', '*', '?', '.', '-', '+', '\'',
];

pub fn special_char() -> impl Strategy<Value = char> {
    (0..SPECIAL.len()).prop_map(|i| SPECIAL[i])
}

pub fn any_char() -> impl Strategy<Value = char> {
    prop_oneof![
        6 => special_char(),
        2 => proptest::char::range('a', 'z'),
        1 => proptest::char::range(' ', '~'),
        1 => any::<char>(),
    ]
}

/// Long text built around block sizes: `mult` x `block` bytes (+-3) of ASCII filler in which a few
/// escape-relevant or multi-byte characters sit within four bytes of a multiple of min(block, 64) (so that
/// characters straddle the edges of 64-byte .. 64-KiB blocks and fast paths for long input are taken).
pub fn long_text() -> BoxedStrategy<String> {
    let block = prop_oneof![2 => Just(8usize), 2 => Just(16usize), 3 => Just(32usize), 8 => Just(64usize), 3 => Just(128usize), 2 => Just(256usize), 1 => Just(1024usize), 1 => Just(4096usize), 1 => Just(8192usize), 1 => Just(16384usize), 1 => Just(65536usize)];
    (block, 1usize..=3, -3i64..=3, proptest::collection::vec((any::<u8>(), -4i64..=3, special_char()), 1..6))
        .prop_map(|(block, mult, jitter, specials)| {
            let len = ((block * mult) as i64 + jitter).max(1) as usize;
            let mut bytes: Vec<Option<char>> = vec![None; len];
            let grid = block.min(64);
            let edges = len / grid + 1;
            for (bi, off, ch) in specials {
                let pos = ((bi as usize % edges) as i64 * grid as i64 + off).clamp(0, len as i64 - 1) as usize;
                bytes[pos] = Some(ch);
            }
            bytes.into_iter().map(|c| c.unwrap_or('a')).collect::<String>()
        })
        .boxed()
}

/// Unicode text, length 0..=max chars, with a small weight for long strings.
pub fn text(max: usize) -> BoxedStrategy<String> {
    prop_oneof![
        2 => Just(String::new()),
        20 => proptest::collection::vec(any_char(), 0..=max).prop_map(|v| v.into_iter().collect::<String>()),
        6 => proptest::collection::vec(special_char(), 1..=4).prop_map(|v| v.into_iter().collect::<String>()),
        1 => long_text(),
    ]
    .boxed()
}

/// Plain identifier-like text (names of steps etc.) with occasional special chars.
pub fn ident() -> BoxedStrategy<String> {
    prop_oneof![
        8 => "[a-z][a-z0-9_-]{0,8}".prop_map(|s| s),
        2 => text(6).prop_filter("non-empty", |s| !s.is_empty()),
    ]
    .boxed()
}

/// The exhaustive two-character table over the escape-relevant alphabet.
pub const TWO_CHAR_ALPHABET: &[char] = &['\\', '"', 'n', '\n', 't', '\t', 'u', '/'];

pub fn two_char_table() -> Vec<String> {
    let mut v = vec![];
    for a in TWO_CHAR_ALPHABET {
        for b in TWO_CHAR_ALPHABET {
            v.push(format!("{}{}", a, b));
        }
    }
    v
}
