//! Generators for attestation documents (statements and predicates) as JSON trees.

use crate::gen::meta::*;
use crate::gen::text::*;
use proptest::prelude::*;
use serde_json::{json, Map, Value};

pub const PRED_TYPES: &[&str] = &[
    "https://in-toto.io/Link/v0.2",
    "https://slsa.dev/provenance/v0.1",
    "https://slsa.dev/provenance/v0.2",
];

fn opt_member(m: &mut Map<String, Value>, name: &str, v: Option<Value>) {
    if let Some(v) = v {
        m.insert(name.to_string(), v);
    }
}

fn short_text() -> BoxedStrategy<String> {
    prop_oneof![3 => "[a-z:/.@-]{0,12}".prop_map(|s| s), 2 => text(6)].boxed()
}

/// RFC 3339 timestamp text: (text, has_fraction, has_offset)
pub fn timestamp_text() -> BoxedStrategy<String> {
    (
        0i64..4_102_444_800i64,
        prop_oneof![3 => Just(None), 2 => (1usize..=9, 0u32..1_000_000_000).prop_map(Some)],
        prop_oneof![
            3 => Just("Z".to_string()),
            1 => Just("+00:00".to_string()),
            1 => Just("-00:00".to_string()),
            3 => (any::<bool>(), 0u32..24, 0u32..60).prop_map(|(neg, h, m)| format!("{}{:02}:{:02}", if neg { "-" } else { "+" }, h, m)),
        ],
        any::<bool>(),
    )
        .prop_map(|(secs, frac, off, lower)| {
            let base = rfc3339_z(secs);
            let mut s = base.trim_end_matches('Z').to_string();
            if let Some((digits, nanos)) = frac {
                let f = format!("{:09}", nanos);
                s.push('.');
                s.push_str(&f[..digits]);
            }
            s.push_str(&off);
            if lower {
                s = s.replace('T', "t").replace('Z', "z");
            }
            s
        })
        .boxed()
}

fn digest_map() -> BoxedStrategy<Value> {
    // one set in six also carries, for one of its names, a sibling that differs in letter case only, is a prefix of
    // it, or carries a trailing space - with another value
    (proptest::collection::btree_map("[a-z0-9]{1,6}", "[0-9a-f]{0,12}", 0..3), prop_oneof![5 => Just(None), 1 => (any::<u8>(), 0u8..4).prop_map(Some)])
        .prop_map(|(mut m, sibling)| {
            if let (Some((sel, how)), false) = (sibling, m.is_empty()) {
                let names: Vec<String> = m.keys().cloned().collect();
                let k = names[sel as usize % names.len()].clone();
                let nk = match how {
                    0 => k.to_uppercase(),
                    1 => format!("{}{}", k[..1].to_uppercase(), &k[1..]),
                    2 => format!("{}1", k),
                    _ => format!("{} ", k),
                };
                m.entry(nk).or_insert_with(|| "00ff".to_string());
            }
            json!(m)
        })
        .boxed()
}

fn material() -> BoxedStrategy<Value> {
    (proptest::option::of(short_text()), proptest::option::of(digest_map()))
        .prop_map(|(uri, digest)| {
            let mut m = Map::new();
            opt_member(&mut m, "uri", uri.map(Value::String));
            opt_member(&mut m, "digest", digest);
            Value::Object(m)
        })
        .boxed()
}

fn completeness() -> BoxedStrategy<Value> {
    (proptest::option::of(any::<bool>()), proptest::option::of(any::<bool>()), proptest::option::of(any::<bool>()))
        .prop_map(|(a, e, mm)| {
            let mut m = Map::new();
            opt_member(&mut m, "arguments", a.map(Value::Bool));
            opt_member(&mut m, "environment", e.map(Value::Bool));
            opt_member(&mut m, "materials", mm.map(Value::Bool));
            Value::Object(m)
        })
        .boxed()
}

fn prov_metadata() -> BoxedStrategy<Value> {
    (
        proptest::option::of(short_text()),
        proptest::option::weighted(0.6, timestamp_text()),
        proptest::option::weighted(0.4, timestamp_text()),
        proptest::option::of(completeness()),
        proptest::option::of(any::<bool>()),
    )
        .prop_map(|(id, s, f, c, r)| {
            let mut m = Map::new();
            opt_member(&mut m, "buildInvocationId", id.map(Value::String));
            opt_member(&mut m, "buildStartedOn", s.map(Value::String));
            opt_member(&mut m, "buildFinishedOn", f.map(Value::String));
            opt_member(&mut m, "completeness", c);
            opt_member(&mut m, "reproducible", r.map(Value::Bool));
            Value::Object(m)
        })
        .boxed()
}

fn recipe() -> BoxedStrategy<Value> {
    (
        short_text(),
        proptest::option::of(prop_oneof![0u64..5, Just(u32::MAX as u64), Just(u64::MAX)]),
        proptest::option::of(short_text()),
        proptest::option::of(short_text()),
        proptest::option::of(short_text()),
    )
        .prop_map(|(t, d, e, a, env)| {
            let mut m = Map::new();
            m.insert("type".into(), Value::String(t));
            opt_member(&mut m, "definedInMaterial", d.map(Value::from));
            opt_member(&mut m, "entryPoint", e.map(Value::String));
            opt_member(&mut m, "arguments", a.map(Value::String));
            opt_member(&mut m, "environment", env.map(Value::String));
            Value::Object(m)
        })
        .boxed()
}

pub fn slsa_v01() -> BoxedStrategy<Value> {
    (short_text(), proptest::option::of(recipe()), proptest::option::weighted(0.7, prov_metadata()), proptest::option::of(proptest::collection::vec(material(), 0..3)))
        .prop_map(|(id, r, md, mats)| {
            let mut m = Map::new();
            m.insert("builder".into(), json!({"id": id}));
            opt_member(&mut m, "recipe", r);
            opt_member(&mut m, "metadata", md);
            opt_member(&mut m, "materials", mats.map(Value::Array));
            Value::Object(m)
        })
        .boxed()
}

fn config_source() -> BoxedStrategy<Value> {
    (prop_oneof![Just(None), Just(Some(Value::Null)), short_text().prop_map(|s| Some(Value::String(s)))], proptest::option::of(digest_map()), proptest::option::of(short_text()))
        .prop_map(|(uri, d, e)| {
            let mut m = Map::new();
            opt_member(&mut m, "uri", uri);
            opt_member(&mut m, "digest", d);
            opt_member(&mut m, "entryPoint", e.map(Value::String));
            Value::Object(m)
        })
        .boxed()
}

fn invocation() -> BoxedStrategy<Value> {
    (proptest::option::of(config_source()), proptest::option::of(short_text()), proptest::option::of(short_text()))
        .prop_map(|(c, p, e)| {
            let mut m = Map::new();
            opt_member(&mut m, "configSource", c);
            opt_member(&mut m, "parameters", p.map(Value::String));
            opt_member(&mut m, "environment", e.map(Value::String));
            Value::Object(m)
        })
        .boxed()
}

pub fn slsa_v02() -> BoxedStrategy<Value> {
    (
        short_text(),
        short_text(),
        proptest::option::of(invocation()),
        proptest::option::of(short_text()),
        proptest::option::weighted(0.7, prov_metadata()),
        proptest::option::of(proptest::collection::vec(material(), 0..3)),
    )
        .prop_map(|(id, bt, inv, bc, md, mats)| {
            let mut m = Map::new();
            m.insert("builder".into(), json!({"id": id}));
            m.insert("buildType".into(), Value::String(bt));
            opt_member(&mut m, "invocation", inv);
            opt_member(&mut m, "buildConfig", bc.map(Value::String));
            opt_member(&mut m, "metadata", md);
            opt_member(&mut m, "materials", mats.map(Value::Array));
            Value::Object(m)
        })
        .boxed()
}

pub fn link_v02() -> BoxedStrategy<Value> {
    (link_spec(true), any::<bool>())
        .prop_map(|(l, drop_env)| {
            let mut m = Map::new();
            m.insert("name".into(), json!(l.name));
            m.insert("materials".into(), json!(l.materials));
            if !(drop_env && l.env.is_none()) {
                m.insert("env".into(), json!(l.env));
            }
            m.insert("command".into(), json!(l.command));
            m.insert("byproducts".into(), l.byproducts.to_wire());
            Value::Object(m)
        })
        .boxed()
}

/// (declared format index, predicate document)
pub fn predicate() -> BoxedStrategy<(usize, Value)> {
    prop_oneof![
        2 => link_v02().prop_map(|v| (0usize, v)),
        3 => slsa_v01().prop_map(|v| (1usize, v)),
        3 => slsa_v02().prop_map(|v| (2usize, v)),
    ]
    .boxed()
}

pub fn statement_naive() -> BoxedStrategy<Value> {
    (link_spec(true), prop_oneof![6 => Just("link".to_string()), 1 => Just("https://in-toto.io/Statement/v0.1".to_string()), 1 => short_text()], any::<bool>())
        .prop_map(|(l, typ, drop_env)| {
            let mut m = Map::new();
            m.insert("_type".into(), json!(typ));
            m.insert("name".into(), json!(l.name));
            m.insert("materials".into(), json!(l.materials));
            m.insert("products".into(), json!(l.products));
            if !(drop_env && l.env.is_none()) {
                m.insert("env".into(), json!(l.env));
            }
            m.insert("command".into(), json!(l.command));
            m.insert("byproducts".into(), l.byproducts.to_wire());
            Value::Object(m)
        })
        .boxed()
}

/// v0.1 statement; `declared` may or may not match the embedded predicate's format
pub fn statement_v01() -> BoxedStrategy<(Value, usize, usize)> {
    (predicate(), artifacts(3, true), prop_oneof![5 => Just(None), 3 => (0usize..3).prop_map(Some)], prop_oneof![6 => Just("https://in-toto.io/Statement/v0.1".to_string()), 1 => Just("link".to_string()), 1 => short_text()])
        .prop_map(|((fmt, pred), subject, other, typ)| {
            let declared = other.unwrap_or(fmt);
            (
                json!({"_type": typ, "subject": subject, "predicateType": PRED_TYPES[declared], "predicate": pred}),
                declared,
                fmt,
            )
        })
        .boxed()
}
