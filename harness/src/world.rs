//! End-to-end scenario ("world"): a signed layout plus the population of a link
//! directory, its materialisation on disk, and the ground-truth model that
//! knows *by construction* who signed what and what was tampered afterwards.

use std::collections::{BTreeMap, BTreeSet, HashMap};
use std::path::{Path, PathBuf};

use in_toto::crypto::{KeyId, PublicKey};
use in_toto::models::{Metablock, MetadataWrapper};
use serde::{Deserialize, Serialize};
use serde_json::{json, Value};

use crate::gen::edit::{apply_edit, TreeEdit};
use crate::gen::keys::*;
use crate::gen::meta::*;
use crate::model::keyid::hex;
use crate::model::rules::{spec_rules, LinkArtifacts, Verdict};

#[derive(Clone, Debug, Serialize, Deserialize, PartialEq, Eq)]
pub enum Corrupt {
    BitFlip(u16),
    Truncate,
    Empty,
}

#[derive(Clone, Debug, Serialize, Deserialize, PartialEq, Eq)]
pub struct SigEntry {
    pub signer: KeySpec,
    /// key whose id labels the entry (None: the signer's own id)
    pub label: Option<KeySpec>,
    pub corrupt: Option<Corrupt>,
    /// the labelling key id is written in upper-case hexadecimal (another string: it names no key)
    #[serde(default)]
    pub label_upper: bool,
}

impl SigEntry {
    pub fn good(k: &KeySpec) -> SigEntry {
        SigEntry { signer: k.clone(), label: None, corrupt: None, label_upper: false }
    }
    pub fn label_id(&self) -> String {
        let id = key_id_str(self.label.as_ref().unwrap_or(&self.signer));
        if self.label_upper {
            id.to_uppercase()
        } else {
            id
        }
    }
}

#[derive(Clone, Debug, Serialize, Deserialize, PartialEq, Eq)]
pub enum Placement {
    /// inner links in `<step>.<keyid8>/` below the parent's link directory
    Proper,
    /// inner links in the parent's link directory itself
    ParentDir,
    /// inner links in the sub-directory named after another key
    OtherKeyDir(KeySpec),
    /// inner links in a sub-directory with this (wrong) name
    Named(String),
}

#[derive(Clone, Debug, Serialize, Deserialize, PartialEq, Eq)]
pub enum Body {
    Link { link: LinkSpec, sigs: Vec<SigEntry>, tamper: Option<TreeEdit> },
    Sub { world: Box<World>, placement: Placement },
    Garbage(String),
}

#[derive(Clone, Debug, Serialize, Deserialize, PartialEq, Eq)]
pub struct LinkFile {
    pub step: String,
    pub filed_under: KeySpec,
    /// the text between `<step>.` and `.link` in the file name when it is not the first eight
    /// characters of `filed_under`'s key id (e.g. dots followed by fewer than eight of them)
    #[serde(default)]
    pub name_field: Option<String>,
    /// the entry in the link directory is a symbolic link; the document itself lies in `<dir>/.store/` under the
    /// name it would properly have (`<step>.<first eight characters of filed_under's id>.link`)
    #[serde(default)]
    pub symlink_store: bool,
    pub body: Body,
}

#[derive(Clone, Debug, Serialize, Deserialize, PartialEq, Eq)]
pub struct World {
    pub layout: LayoutSpec,
    pub sigs: Vec<SigEntry>,
    pub tamper: Option<TreeEdit>,
    pub links: Vec<LinkFile>,
}

/// Same key material (an Ed25519 seed imported two ways is one key pair with two ids)?
pub fn material(k: &KeySpec) -> String {
    match k {
        KeySpec::Ed { seed, .. } => format!("ed{}", seed),
        KeySpec::Ec { idx } => format!("ec{}", idx % ECDSA_POOL),
        KeySpec::Rsa { idx, .. } => format!("rsa{}", idx % RSA_POOL.len()),
    }
}

pub fn prefix8(k: &KeySpec) -> String {
    key_id_str(k)[..8].to_string()
}

// ---------------------------------------------------------------------------
// materialisation

#[derive(Clone, Debug, Default)]
pub struct DocInfo {
    /// final text parses as a signed block
    pub parses: bool,
    /// an edit was applied after signing and the parsed content differs from what was signed
    pub tampered: bool,
}

#[derive(Clone, Debug, Default)]
pub struct MatInfo {
    pub layout: DocInfo,
    pub layout_text: String,
    pub files: Vec<(DocInfo, Option<Box<MatInfo>>)>,
}

thread_local! {
    /// One signature per (key, document) and process: randomised schemes (RSA-PSS, ECDSA) then
    /// yield the same signature value for the genuine document and for its edited copy, which is
    /// what an attacker who copies a signature block has.
    static SIG_MEMO: std::cell::RefCell<HashMap<(String, String), Vec<u8>>> = std::cell::RefCell::new(HashMap::new());
}

fn sign_memo(meta: &MetadataWrapper, signer: &KeySpec) -> Vec<u8> {
    let key = (format!("{:?}", signer), serde_json::to_string(meta).expect("to_string"));
    if let Some(v) = SIG_MEMO.with(|m| m.borrow().get(&key).cloned()) {
        return v;
    }
    let sk = private(signer);
    let block = Metablock::new(meta.clone(), &[&*sk]).expect("harness: signing failed");
    let bytes = block.signatures[0].value().as_bytes().to_vec();
    SIG_MEMO.with(|m| {
        let mut m = m.borrow_mut();
        if m.len() > 4096 {
            m.clear();
        }
        m.insert(key, bytes.clone());
    });
    bytes
}

fn signature_values(meta: &MetadataWrapper, sigs: &[SigEntry]) -> Vec<Value> {
    let mut out = vec![];
    for e in sigs {
        let mut bytes = sign_memo(meta, &e.signer);
        match &e.corrupt {
            None => {}
            Some(Corrupt::BitFlip(b)) => {
                let i = (*b as usize) % (bytes.len() * 8);
                bytes[i / 8] ^= 1 << (i % 8);
            }
            Some(Corrupt::Truncate) => {
                let n = bytes.len() / 2;
                bytes.truncate(n);
            }
            Some(Corrupt::Empty) => bytes.clear(),
        }
        out.push(json!({"keyid": e.label_id(), "sig": hex(&bytes)}));
    }
    out
}

/// Signed document text: sign `meta`, then apply the post-signing edit to the JSON.
pub fn signed_text(meta: &MetadataWrapper, sigs: &[SigEntry], tamper: &Option<TreeEdit>) -> (String, DocInfo) {
    let tree = serde_json::to_value(meta).expect("to_value");
    let sig_values = signature_values(meta, sigs);
    let render = |signed: &Value| -> (String, DocInfo) {
        let doc = json!({"signatures": sig_values, "signed": signed});
        let text = serde_json::to_string(&doc).expect("to_string");
        let info = match serde_json::from_str::<Metablock>(&text) {
            Ok(b) => DocInfo { parses: true, tampered: &b.metadata != meta },
            Err(_) => DocInfo { parses: false, tampered: true },
        };
        (text, info)
    };
    match tamper {
        None => render(&tree),
        Some(e) => {
            // the generated edit, else (deterministically) neighbouring edit kinds at the same
            // site, preferring one that still parses and is observable
            let mut first: Option<(String, DocInfo)> = None;
            for j in 0..10u8 {
                let e2 = TreeEdit { site: e.site, kind: e.kind.wrapping_add(j.wrapping_mul(7)), arg: e.arg.clone() };
                if let Some((edited, _)) = apply_edit(&tree, &e2) {
                    let r = render(&edited);
                    if r.1.parses && r.1.tampered {
                        return r;
                    }
                    if first.is_none() {
                        first = Some(r);
                    }
                }
            }
            first.unwrap_or_else(|| render(&tree))
        }
    }
}

fn has_tamper(w: &World) -> bool {
    w.tamper.is_some()
        || w.links.iter().any(|f| match &f.body {
            Body::Link { tamper, .. } => tamper.is_some(),
            Body::Sub { world, .. } => has_tamper(world),
            Body::Garbage(_) => false,
        })
}

fn has_inspections(w: &World) -> bool {
    !w.layout.inspect.is_empty()
        || w.links.iter().any(|f| match &f.body {
            Body::Sub { world, .. } => has_inspections(world),
            _ => false,
        })
}

fn strip_tamper(w: &World) -> World {
    let mut t = w.clone();
    t.tamper = None;
    for f in t.links.iter_mut() {
        match &mut f.body {
            Body::Link { tamper, .. } => *tamper = None,
            Body::Sub { world, .. } => **world = strip_tamper(world),
            Body::Garbage(_) => {}
        }
    }
    t
}

/// Every regular file below `dir` gets the same, fixed modification time.
pub fn pin_mtimes(dir: &Path) {
    let t = std::time::UNIX_EPOCH + std::time::Duration::from_secs(1_700_000_000);
    let Ok(rd) = std::fs::read_dir(dir) else { return };
    for e in rd.flatten() {
        let p = e.path();
        let Ok(m) = std::fs::symlink_metadata(&p) else { continue };
        if m.is_dir() {
            pin_mtimes(&p);
        } else if m.is_file() {
            if let Ok(f) = std::fs::OpenOptions::new().write(true).open(&p) {
                let _ = f.set_modified(t);
            }
        }
    }
}

/// History on disk: the link directory `dir` first holds world `prev`, which is verified once
/// with `prev_keys` (verdict not judged); then the very same paths are rewritten to hold `w`.
/// All files carry one fixed modification time before and after, as after `cp -p`, `rsync -t` or
/// unpacking an archive, so neither path nor time stamp (nor, where the two worlds differ by
/// same-length edits only, size) tells the two states apart - only the bytes do.
pub fn write_world_after(prev: &World, prev_keys: &[KeySpec], w: &World, dir: &Path) -> MatInfo {
    let pinfo = write_world_inner(prev, dir);
    pin_mtimes(dir);
    let _ = run_verify(&pinfo, &own_ids(prev_keys), dir, None);
    let _ = std::fs::remove_dir_all(dir);
    let info = write_world_inner(w, dir);
    pin_mtimes(dir);
    info
}

pub fn good_signers(w: &World) -> Vec<KeySpec> {
    let mut signers: Vec<KeySpec> = vec![];
    for e in &w.sigs {
        if e.corrupt.is_none() && e.label.is_none() && !e.label_upper && !signers.contains(&e.signer) {
            signers.push(e.signer.clone());
        }
    }
    signers
}

/// Materialise `w` under `dir`. History: when some document of `w` was edited after signing,
/// the directory first holds the same world *without* the edits (the genuine documents, carrying
/// the very same signature values), which is verified once with the layout's own signers, so that
/// the edited copy is always presented to a process that has already seen - and accepted - the
/// genuine one at the same paths. The outcome of that priming call is not judged.
pub fn write_world(w: &World, dir: &Path) -> MatInfo {
    if has_tamper(w) && !has_inspections(w) {
        let twin = strip_tamper(w);
        let signers = good_signers(&twin);
        return write_world_after(&twin, &signers, w, dir);
    }
    write_world_inner(w, dir)
}

/// For every `*.link` file below `dir`: a copy of the same length in which one hex digit of the
/// first signature value is changed. Returns (path, original bytes) for `restore_files`.
pub fn near_copies_in_place(dir: &Path) -> Vec<(PathBuf, Vec<u8>)> {
    let mut saved = vec![];
    let Ok(rd) = std::fs::read_dir(dir) else { return saved };
    let mut entries: Vec<PathBuf> = rd.flatten().map(|e| e.path()).collect();
    entries.sort();
    for p in entries {
        let Ok(m) = std::fs::symlink_metadata(&p) else { continue };
        if m.is_dir() {
            saved.extend(near_copies_in_place(&p));
        } else if m.is_file() && p.extension().map(|e| e == "link").unwrap_or(false) {
            let Ok(orig) = std::fs::read(&p) else { continue };
            let marker = b"\"sig\":\"";
            if let Some(i) = orig.windows(marker.len()).position(|w| w == marker) {
                let j = i + marker.len();
                if j < orig.len() && orig[j].is_ascii_hexdigit() {
                    let mut near = orig.clone();
                    near[j] = if orig[j] == b'0' { b'1' } else { b'0' };
                    if std::fs::write(&p, &near).is_ok() {
                        saved.push((p, orig));
                    }
                }
            }
        }
    }
    saved
}

pub fn restore_files(saved: &[(PathBuf, Vec<u8>)]) {
    for (p, bytes) in saved {
        let _ = std::fs::write(p, bytes);
    }
}

pub fn run_world_after(prev: &World, w: &World, caller: &[KeySpec], dir: &PathBuf, now: i64) -> (Option<Result<Metablock, String>>, Judged, MatInfo) {
    let info = write_world_after(prev, caller, w, dir);
    let j = judge(w, &info, caller, now, true);
    let r = run_verify(&info, &own_ids(caller), dir, None);
    (r, j, info)
}

fn write_world_inner(w: &World, dir: &Path) -> MatInfo {
    let _ = std::fs::create_dir_all(dir);
    let meta = MetadataWrapper::Layout(w.layout.to_lib());
    let (layout_text, layout) = signed_text(&meta, &w.sigs, &w.tamper);
    let mut files = vec![];
    for f in &w.links {
        let name = format!("{}.{}.link", f.step, f.name_field.clone().unwrap_or_else(|| prefix8(&f.filed_under)));
        let path = dir.join(&name);
        match &f.body {
            Body::Link { link, sigs, tamper } => {
                let (text, info) = signed_text(&MetadataWrapper::Link(link.to_lib()), sigs, tamper);
                // an unrepresentable file name (NUL, '/') simply means the file is absent
                let written = if f.symlink_store {
                    let store = dir.join(".store");
                    let _ = std::fs::create_dir_all(&store);
                    let proper = format!("{}.{}.link", f.step, prefix8(&f.filed_under));
                    std::fs::write(store.join(&proper), text).is_ok() && std::os::unix::fs::symlink(format!(".store/{}", proper), &path).is_ok()
                } else {
                    std::fs::write(&path, text).is_ok()
                };
                if written {
                    files.push((info, None));
                } else {
                    files.push((DocInfo { parses: false, tampered: true }, None));
                }
            }
            Body::Garbage(s) => {
                let _ = std::fs::write(&path, s);
                files.push((DocInfo { parses: serde_json::from_str::<Metablock>(s).is_ok(), tampered: true }, None));
            }
            Body::Sub { world, placement } => {
                let sub = match placement {
                    Placement::Proper => dir.join(format!("{}.{}", f.step, prefix8(&f.filed_under))),
                    Placement::ParentDir => dir.to_path_buf(),
                    Placement::OtherKeyDir(k) => dir.join(format!("{}.{}", f.step, prefix8(k))),
                    Placement::Named(n) => dir.join(n),
                };
                let inner = write_world_inner(world, &sub);
                let _ = std::fs::write(&path, &inner.layout_text);
                files.push((inner.layout.clone(), Some(Box::new(inner))));
            }
        }
    }
    MatInfo { layout, layout_text, files }
}

// ---------------------------------------------------------------------------
// ground truth

#[derive(Clone, Debug, PartialEq, Eq, Serialize, Deserialize)]
pub enum Cond {
    EmptyKeys,
    AliasedKeys,
    OwnerSig(String),
    Expired,
    Threshold(String),
    Agreement(String),
    Rule(String, String),
}

#[derive(Clone, Debug, PartialEq, Eq)]
pub struct Evidence {
    pub materials: Artifacts,
    pub products: Artifacts,
    pub command: Vec<String>,
    pub byproducts: ByprodSpec,
}

#[derive(Clone, Debug, Default)]
pub struct Judged {
    pub violated: Vec<Cond>,
    /// the counted keys per step (key id strings)
    pub good: BTreeMap<String, BTreeSet<String>>,
    /// evidence per step when all counted links agree
    pub evidence: BTreeMap<String, Evidence>,
    /// some step has several counted links that differ while its threshold is <= 1
    pub ambiguous: bool,
    pub summary: Option<Evidence>,
}

pub fn intact(sigs: &[SigEntry], k: &KeySpec, doc: &DocInfo) -> bool {
    doc.parses
        && !doc.tampered
        && sigs.iter().any(|e| e.corrupt.is_none() && e.label_id() == key_id_str(k) && material(&e.signer) == material(k))
}

/// Ground truth for `w` verified with caller keys `caller` at time `now` (unix seconds).
/// `placement_ok`: the links of this world were put where its verifier will look.
pub fn judge(w: &World, info: &MatInfo, caller: &[KeySpec], now: i64, placement_ok: bool) -> Judged {
    let mut j = Judged::default();
    // owner signatures
    if caller.is_empty() {
        j.violated.push(Cond::EmptyKeys);
    }
    let ids: BTreeSet<String> = caller.iter().map(key_id_str).collect();
    if ids.len() != caller.len() {
        j.violated.push(Cond::AliasedKeys);
    }
    for k in caller {
        if !intact(&w.sigs, k, &info.layout) {
            j.violated.push(Cond::OwnerSig(key_id_str(k)));
        }
    }
    if w.layout.expires < now {
        j.violated.push(Cond::Expired);
    }
    let table: BTreeSet<String> = w.layout.keys.iter().map(key_id_str).collect();
    for s in &w.layout.steps {
        let mut good: BTreeMap<String, Evidence> = BTreeMap::new();
        for k in &s.pubkeys {
            let kid = key_id_str(k);
            if !table.contains(&kid) {
                continue;
            }
            for (fi, f) in w.links.iter().enumerate() {
                if !placement_ok {
                    break;
                }
                // a file counts for key k only if its name carries exactly the first eight characters of k's id
                if f.step != s.name || f.name_field.clone().unwrap_or_else(|| prefix8(&f.filed_under)) != prefix8(k) {
                    continue;
                }
                let (doc, sub) = &info.files[fi];
                match &f.body {
                    Body::Garbage(_) => {}
                    Body::Link { link, sigs, .. } => {
                        if intact(sigs, k, doc) {
                            good.insert(
                                kid.clone(),
                                Evidence { materials: link.materials.clone(), products: link.products.clone(), command: link.command.clone(), byproducts: link.byproducts.clone() },
                            );
                        }
                    }
                    Body::Sub { world, placement } => {
                        if let Some(sub) = sub {
                            let inner = judge(world, sub, std::slice::from_ref(k), now, *placement == Placement::Proper);
                            if inner.violated.is_empty() && !inner.ambiguous {
                                if let Some(sum) = inner.summary {
                                    good.insert(kid.clone(), sum);
                                }
                            }
                        }
                    }
                }
            }
        }
        j.good.insert(s.name.clone(), good.keys().cloned().collect());
        if (good.len() as u64) < (s.threshold.max(1) as u64) {
            j.violated.push(Cond::Threshold(s.name.clone()));
        }
        let mut distinct: Vec<&Evidence> = vec![];
        for e in good.values() {
            if !distinct.iter().any(|d| d.materials == e.materials && d.products == e.products) {
                distinct.push(e);
            }
        }
        if distinct.len() > 1 {
            if s.threshold >= 2 {
                j.violated.push(Cond::Agreement(s.name.clone()));
            } else {
                j.ambiguous = true;
            }
        }
        if distinct.len() == 1 {
            // several counted links may still differ in command/byproducts
            let all_same = good.values().all(|e| e == good.values().next().unwrap());
            if !all_same && s.name == w.layout.steps.last().map(|x| x.name.clone()).unwrap_or_default() {
                j.ambiguous = true;
            }
            j.evidence.insert(s.name.clone(), good.values().next().unwrap().clone());
        }
    }
    // artifact rules of steps (only when every step has unambiguous evidence)
    let complete = w.layout.steps.iter().all(|s| j.evidence.contains_key(&s.name));
    if complete && !j.ambiguous {
        let links: BTreeMap<String, LinkArtifacts> =
            j.evidence.iter().map(|(n, e)| (n.clone(), LinkArtifacts { materials: e.materials.clone(), products: e.products.clone() })).collect();
        for s in &w.layout.steps {
            if let Verdict::Reject(r) = spec_rules(&s.name, &s.expected_materials, &s.expected_products, &links) {
                j.violated.push(Cond::Rule(s.name.clone(), r));
            }
        }
        if let (Some(first), Some(last)) = (w.layout.steps.first(), w.layout.steps.last()) {
            let f = &j.evidence[&first.name];
            let l = &j.evidence[&last.name];
            j.summary = Some(Evidence { materials: f.materials.clone(), products: l.products.clone(), command: l.command.clone(), byproducts: l.byproducts.clone() });
        } else {
            j.summary = Some(Evidence { materials: Default::default(), products: Default::default(), command: vec![], byproducts: Default::default() });
        }
    }
    j
}

// ---------------------------------------------------------------------------
// running the library

pub struct RunResult {
    pub result: Result<Metablock, String>,
}

/// Parse the layout text and call `in_toto_verify`. `None` when the layout text does not parse.
pub fn run_verify(info: &MatInfo, caller: &[(Option<String>, KeySpec)], dir: &Path, step_name: Option<&str>) -> Option<Result<Metablock, String>> {
    let block: Metablock = serde_json::from_str(&info.layout_text).ok()?;
    let mut keys: HashMap<KeyId, PublicKey> = HashMap::new();
    for (id, k) in caller {
        let pk = public(k);
        let kid: KeyId = match id {
            None => pk.key_id().clone(),
            Some(s) => serde_json::from_value(json!(s)).expect("key id string"),
        };
        keys.insert(kid, pk);
    }
    run_verify_keys(&block, keys, dir, step_name)
}

/// The `step_name` argument actually passed for this layout (see `run_verify_keys`).
pub fn effective_step_name<'a>(block: &Metablock, step_name: Option<&'a str>) -> Option<&'a str> {
    let pick = block.signatures.first().map(|s| s.value().as_bytes().iter().fold(0u32, |a, b| a.wrapping_mul(31).wrapping_add(*b as u32))).unwrap_or(1);
    match step_name {
        Some(n) => Some(n),
        None if pick % 3 == 0 => Some("named-summary"),
        None => None,
    }
}

/// Call `in_toto_verify` with an explicit key map. When the caller does not care under which name
/// the summary link is returned, a third of the layouts (chosen by their signatures) are verified
/// with the optional `step_name` argument set - the verdict must not depend on it.
pub fn run_verify_keys(block: &Metablock, keys: HashMap<KeyId, PublicKey>, dir: &Path, step_name: Option<&str>) -> Option<Result<Metablock, String>> {
    let dir_s = dir.to_str().expect("utf8 dir");
    let step_name = effective_step_name(block, step_name);
    Some(in_toto::verifylib::in_toto_verify(block, keys, dir_s, step_name).map_err(|e| e.to_string()))
}

/// The standards-conformant SubjectPublicKeyInfo of a pool key.
pub fn spki_of_key(k: &KeySpec) -> Vec<u8> {
    use crate::model::keyid::*;
    match k {
        KeySpec::Ed { seed, .. } => spki_ed25519(&ed_public(*seed)),
        KeySpec::Ec { idx } => spki_p256(&ec_point(*idx)),
        KeySpec::Rsa { idx, .. } => rsa_spki(*idx),
    }
}

/// The same key material declared with a signature scheme the library does not implement.
pub fn unknown_scheme_key(k: &KeySpec) -> PublicKey {
    PublicKey::from_spki(&spki_of_key(k), in_toto::crypto::SignatureScheme::Unknown("rsa-pkcs1v15-sha256".into())).expect("spki import")
}

pub fn own_ids(keys: &[KeySpec]) -> Vec<(Option<String>, KeySpec)> {
    keys.iter().map(|k| (None, k.clone())).collect()
}

/// Run a world in a fresh directory with honest caller keys; returns (result, judgement).
pub fn run_world(w: &World, caller: &[KeySpec], dir: &PathBuf, now: i64) -> (Option<Result<Metablock, String>>, Judged, MatInfo) {
    let info = write_world(w, dir);
    let j = judge(w, &info, caller, now, true);
    let r = run_verify(&info, &own_ids(caller), dir, None);
    (r, j, info)
}

pub fn evidence_of_link(l: &in_toto::models::LinkMetadata) -> Evidence {
    let s = LinkSpec::from_lib(l);
    Evidence { materials: s.materials, products: s.products, command: s.command, byproducts: s.byproducts }
}
