//! itv — property-based verification harness for in-toto-rs.
//!
//!   itv run <ID> [--tier quick|thorough] [--seed N] [--workers N] [--cases N] [--timeout S]
//!   itv replay <ID> <file>
//!   itv worker <ID> ...            (internal)
//!   itv list

mod driver;
mod fw;
mod gen;
mod model;
mod props;
mod world;

use std::path::PathBuf;

use fw::*;

pub fn verif_root() -> PathBuf {
    if let Ok(p) = std::env::var("VERIF_ROOT") {
        return PathBuf::from(p);
    }
    PathBuf::from("/verif")
}

fn arg_value(args: &[String], name: &str) -> Option<String> {
    args.iter().position(|a| a == name).and_then(|i| args.get(i + 1).cloned())
}

/// A logger that accepts every record and formats it (so that the arguments of every `debug!`/`warn!`
/// in the library are evaluated) but writes nothing. Applications commonly run with logging enabled;
/// half of the workers, and every replay, do too.
struct Sink;

impl log::Log for Sink {
    fn enabled(&self, _: &log::Metadata) -> bool {
        true
    }
    fn log(&self, record: &log::Record) {
        let text = format!("{}", record.args());
        std::hint::black_box(text);
    }
    fn flush(&self) {}
}

static SINK: Sink = Sink;

pub fn enable_logging() {
    let _ = log::set_logger(&SINK);
    log::set_max_level(log::LevelFilter::Trace);
}

fn silence_stdio() {
    // library code prints (println! in predicate detection, child process
    // output echo in run_command); workers report through files only.
    unsafe {
        let devnull = libc::open(b"/dev/null\0".as_ptr() as *const libc::c_char, libc::O_WRONLY);
        if devnull >= 0 {
            libc::dup2(devnull, 1);
            libc::dup2(devnull, 2);
        }
    }
}

macro_rules! dispatch {
    ($id:expr, $f:ident, $($arg:expr),*) => {
        match $id {
            "C01" => $f::<props::c01::C01>($($arg),*),
            "C02" => $f::<props::c02::C02>($($arg),*),
            "C03" => $f::<props::c03::C03>($($arg),*),
            "C04" => $f::<props::c04::C04>($($arg),*),
            "C05" => $f::<props::c05::C05>($($arg),*),
            "C06" => $f::<props::c06::C06>($($arg),*),
            "C07" => $f::<props::c07::C07>($($arg),*),
            "C08" => $f::<props::c08::C08>($($arg),*),
            "C09" => $f::<props::c09::C09>($($arg),*),
            "C10" => $f::<props::c10::C10>($($arg),*),
            "C11" => $f::<props::c11::C11>($($arg),*),
            "C12" => $f::<props::c12::C12>($($arg),*),
            "C13" => $f::<props::c13::C13>($($arg),*),
            "C14" => $f::<props::c14::C14>($($arg),*),
            "C15" => $f::<props::c15::C15>($($arg),*),
            "C16" => $f::<props::c16::C16>($($arg),*),
            "C17" => $f::<props::c17::C17>($($arg),*),
            "C18" => $f::<props::c18::C18>($($arg),*),
            "C19" => $f::<props::c19::C19>($($arg),*),
            "C20" => $f::<props::c20::C20>($($arg),*),
            other => {
                eprintln!("unknown property {}", other);
                std::process::exit(2);
            }
        }
    };
}

fn do_replay<P: Property>(path: PathBuf) -> i32 {
    let scratch = std::env::temp_dir().join(format!("itv-replay-{}", std::process::id()));
    std::fs::create_dir_all(&scratch).unwrap();
    let mut env = Env::new(Tier::Quick, 0, 0, 1, scratch.clone());
    let r = replay_one::<P>(&path, &mut env);
    let _ = std::fs::remove_dir_all(&scratch);
    match r {
        Err(e) => {
            println!("REPLAY-ERROR {}", e);
            2
        }
        Ok(fails) if fails.is_empty() => {
            println!("REPLAY-PASS property={} file={}", P::id(), path.display());
            0
        }
        Ok(fails) => {
            for f in &fails {
                println!("signature: {}\n  observed: {}\n  expected: {}", f.signature, f.observed, f.expected);
            }
            println!("VIOLATION property={} replay={}", P::id(), path.display());
            1
        }
    }
}

fn main() {
    let args: Vec<String> = std::env::args().collect();
    if args.len() < 2 {
        eprintln!("usage: itv run|replay|worker|list ...");
        std::process::exit(2);
    }
    install_panic_hook();
    match args[1].as_str() {
        "list" => {
            for i in 1..=20 {
                println!("C{:02}", i);
            }
        }
        "run" => {
            let id = args.get(2).cloned().unwrap_or_default();
            let tier = match arg_value(&args, "--tier")
                .or_else(|| std::env::var("VERIF_TIER").ok())
                .unwrap_or_else(|| "quick".into())
                .as_str()
            {
                "thorough" => Tier::Thorough,
                _ => Tier::Quick,
            };
            let seed = arg_value(&args, "--seed")
                .or_else(|| std::env::var("VERIF_SEED").ok())
                .and_then(|s| s.trim().parse::<i128>().ok())
                .map(|v| v as u64)
                .unwrap_or(0);
            let ncpu = std::thread::available_parallelism().map(|n| n.get()).unwrap_or(4);
            let workers = arg_value(&args, "--workers")
                .and_then(|s| s.parse().ok())
                .unwrap_or_else(|| ncpu.min(16).max(1));
            let cases_override = arg_value(&args, "--cases").and_then(|s| s.parse().ok());
            let timeout_s = arg_value(&args, "--timeout")
                .and_then(|s| s.parse().ok())
                .unwrap_or(tier.pick(1500, 6 * 3600));
            let ra = driver::RunArgs { tier, seed, workers, cases_override, timeout_s };
            use driver::run_property;
            let code = dispatch!(id.as_str(), run_property, ra);
            std::process::exit(code);
        }
        "replay" => {
            let id = args.get(2).cloned().unwrap_or_default();
            let path = PathBuf::from(args.get(3).cloned().unwrap_or_default());
            if std::env::var("ITV_REPLAY_VERBOSE").is_err() {
                // keep library chatter away, but keep our own stdout: run check, then print
            }
            enable_logging();
            let code = dispatch!(id.as_str(), do_replay, path);
            std::process::exit(code);
        }
        "fuzz-replay" => {
            // plain (non-libFuzzer) replay of a byte-level artefact through the shared oracle
            let target = args.get(2).cloned().unwrap_or_default();
            let path = PathBuf::from(args.get(3).cloned().unwrap_or_default());
            let data = match std::fs::read(&path) {
                Ok(d) => d,
                Err(e) => {
                    println!("REPLAY-ERROR {}", e);
                    std::process::exit(2);
                }
            };
            let saved = unsafe { libc::dup(1) };
            silence_stdio();
            enable_logging();
            let r = guarded(|| itv_oracles::run(&target, &data));
            unsafe {
                libc::dup2(saved, 1);
            }
            match r {
                Ok(Ok(())) => {
                    println!("REPLAY-PASS target={} file={}", target, path.display());
                    std::process::exit(0);
                }
                Ok(Err(e)) => {
                    println!("ORACLE-VIOLATION target={} {}", target, e);
                    std::process::exit(1);
                }
                Err(pi) => {
                    println!("PANIC target={} at {}:{}: {}", target, pi.file, pi.line, pi.message);
                    std::process::exit(1);
                }
            }
        }
        "run-command" => {
            // one `run_command` call in a process of its own (C14: termination is observed from outside)
            let out = PathBuf::from(args.get(2).cloned().unwrap_or_default());
            let script = args.get(3).cloned().unwrap_or_default();
            silence_stdio();
            let r = guarded(|| in_toto::runlib::run_command(&["sh", "-c", &script], None));
            let v = match r {
                Ok(Ok(bp)) => {
                    let j = serde_json::to_value(&bp).unwrap_or(serde_json::Value::Null);
                    serde_json::json!({"ok": true, "stdout_len": j["stdout"].as_str().map(|s| s.len()), "stderr_len": j["stderr"].as_str().map(|s| s.len()), "return_value": j["return-value"]})
                }
                Ok(Err(e)) => serde_json::json!({"ok": false, "err": e.to_string()}),
                Err(pi) => serde_json::json!({"panic": format!("{}:{} {}", pi.file, pi.line, pi.message)}),
            };
            let _ = std::fs::write(&out, v.to_string());
        }
        "find-colliders" => {
            // one-off search behind gen::keys::COLLIDER_COUNTERS: Ed25519 seeds whose key ids share the first eight
            // hexadecimal characters (the part of a key id that names a link file)
            let n: u32 = args.get(2).and_then(|s| s.parse().ok()).unwrap_or(400_000);
            for hash_algs in [true, false] {
                let mut seen: std::collections::HashMap<String, u32> = std::collections::HashMap::new();
                for c in 0..n {
                    let kp = ring::signature::Ed25519KeyPair::from_seed_unchecked(&gen::keys::wide_seed(c)).expect("seed");
                    let d = model::keyid::KeyDesc { keytype: "ed25519", scheme: "ed25519", hash_algs, public: data_encoding::HEXLOWER.encode(ring::signature::KeyPair::public_key(&kp).as_ref()) };
                    let id = model::keyid::reference_key_id_of(&d);
                    if let Some(prev) = seen.insert(id[..8].to_string(), c) {
                        println!("hash_algs={} counters {} {} prefix {}", hash_algs, prev, c, &id[..8]);
                    }
                }
            }
        }
        "verify-dir" => {
            // one verification in a fresh process (fresh hash seeds); used by C13
            let dir = PathBuf::from(args.get(2).cloned().unwrap_or_default());
            let saved = unsafe { libc::dup(1) };
            silence_stdio();
            let v = props::c13::verify_dir_once(&dir);
            unsafe {
                libc::dup2(saved, 1);
            }
            println!("VERIFY-DIR {}", v);
        }
        "worker" => {
            silence_stdio();
            let id = args.get(2).cloned().unwrap_or_default();
            let tier = if arg_value(&args, "--tier").as_deref() == Some("thorough") {
                Tier::Thorough
            } else {
                Tier::Quick
            };
            let wa = WorkerArgs {
                tier,
                seed: arg_value(&args, "--seed").and_then(|s| s.parse().ok()).unwrap_or(0),
                worker: arg_value(&args, "--index").and_then(|s| s.parse().ok()).unwrap_or(0),
                workers: arg_value(&args, "--of").and_then(|s| s.parse().ok()).unwrap_or(1),
                out: PathBuf::from(arg_value(&args, "--out").expect("--out")),
                scratch: PathBuf::from(arg_value(&args, "--scratch").expect("--scratch")),
                cases_override: arg_value(&args, "--cases").and_then(|s| s.parse().ok()),
            };
            if wa.worker % 2 == 1 {
                enable_logging();
            }
            dispatch!(id.as_str(), run_worker, wa);
        }
        other => {
            eprintln!("unknown command {}", other);
            std::process::exit(2);
        }
    }
}
