#!/bin/bash
# Runs a quick check against a seeded change WITHOUT touching /repo (used while a long run is using /repo):
#   tools_mutcopy.sh setup                 -- scratch worktree /tmp/mut/repo + copy of /verif at /tmp/mut/verif whose
#                                             path dependencies point to that worktree (cold build, about 100 s)
#   tools_mutcopy.sh run <name> <ID> [seed] -- apply seeded/<name>/patch.diff there, run the copy's ./check, revert
#   tools_mutcopy.sh sync                  -- copy the current harness sources into the copy
#   tools_mutcopy.sh remove                -- remove both
set -u
cmd="${1:-}"; shift || true
case "$cmd" in
setup)
  mkdir -p /tmp/mut && git -C /repo worktree add --detach /tmp/mut/repo HEAD || exit 2
  rsync -a --exclude out --exclude seeded --exclude 'fuzz/target' --exclude 'oracles/target' --exclude 'harness/target' --exclude .git /verif/ /tmp/mut/verif/
  sed -i 's|path = "/repo"|path = "/tmp/mut/repo"|' /tmp/mut/verif/harness/Cargo.toml /tmp/mut/verif/oracles/Cargo.toml
  (cd /tmp/mut/verif/harness && CARGO_NET_OFFLINE=true cargo build --release --offline 2>&1 | tail -1) ;;
sync) rsync -a /verif/harness/src/ /tmp/mut/verif/harness/src/ ;;
run)
  name="$1"; id="$2"; seed="${3:-0}"
  cd /tmp/mut/repo || exit 2
  git checkout -q -- . ; git apply "/verif/seeded/$name/patch.diff" || exit 2
  VERIF_SEED=$seed /tmp/mut/verif/check "$id" --tier quick 2>&1 | grep -E "^(VIOLATION|OK|INCONCLUSIVE|KNOWN|GENERATOR|HARNESS|TIMEOUT|BUILD)" | head -4 | cut -c1-260 | sed "s/^/[$name $id] /"
  git checkout -q -- . ;;
remove)
  git -C /repo worktree remove --force /tmp/mut/repo; git -C /repo worktree prune; rm -rf /tmp/mut ;;
*) echo "usage: tools_mutcopy.sh setup|sync|run <name> <ID> [seed]|remove"; exit 2 ;;
esac
