//! Byte-level oracles shared by the libFuzzer targets (/verif/fuzz) and the
//! plain replay path of the harness (`itv fuzz-replay <target> <file>`).
//! Every function returns Err(description) on an oracle violation and never
//! panics by itself; a panic therefore comes from the library under test.

use in_toto::crypto::{PrivateKey, PublicKey, SignatureScheme};
use in_toto::interchange::{DataInterchange, Json};
use in_toto::models::{Metablock, MetadataWrapper, PredicateWrapper, StatementWrapper};
use in_toto::verif_hooks as h;

pub const TARGETS: &[&str] = &["parse_metablock", "cjson", "keys", "pae", "attest"];

struct Sink;

impl log::Log for Sink {
    fn enabled(&self, _: &log::Metadata) -> bool {
        true
    }
    fn log(&self, record: &log::Record) {
        std::hint::black_box(format!("{}", record.args()));
    }
    fn flush(&self) {}
}

static SINK: Sink = Sink;
static LOGGING: std::sync::Once = std::sync::Once::new();

pub fn run(target: &str, data: &[u8]) -> Result<(), String> {
    // every log statement of the library gets its arguments evaluated (a sink at trace level)
    LOGGING.call_once(|| {
        let _ = log::set_logger(&SINK);
        log::set_max_level(log::LevelFilter::Trace);
    });
    match target {
        "parse_metablock" => parse_metablock(data),
        "cjson" => cjson(data),
        "keys" => keys(data),
        "pae" => pae(data),
        "attest" => attest(data),
        other => Err(format!("unknown target {}", other)),
    }
}

struct Chunked<'a>(&'a [u8], usize);
impl<'a> std::io::Read for Chunked<'a> {
    fn read(&mut self, buf: &mut [u8]) -> std::io::Result<usize> {
        let n = 3.min(buf.len()).min(self.0.len() - self.1);
        buf[..n].copy_from_slice(&self.0[self.1..self.1 + n]);
        self.1 += n;
        Ok(n)
    }
}

fn has_duplicate_keys(data: &[u8]) -> bool {
    // conservative: compare member count of a tolerant tree with the raw text is not possible with
    // serde_json::Value (it keeps the last duplicate); detect duplicates with a tiny scanner
    fn scan(v: &[u8]) -> bool {
        // collect object member names per object by a stack machine
        let mut stack: Vec<Vec<Vec<u8>>> = vec![];
        let mut i = 0;
        let mut expect_key = false;
        while i < v.len() {
            match v[i] {
                b'{' => {
                    stack.push(vec![]);
                    expect_key = true;
                    i += 1;
                }
                b'}' => {
                    stack.pop();
                    expect_key = false;
                    i += 1;
                }
                b'[' => {
                    stack.push(vec![b"\x00array".to_vec()]);
                    expect_key = false;
                    i += 1;
                }
                b']' => {
                    stack.pop();
                    expect_key = false;
                    i += 1;
                }
                b',' => {
                    expect_key = stack.last().map(|s| s.first().map(|f| f != b"\x00array").unwrap_or(true)).unwrap_or(false);
                    i += 1;
                }
                b'"' => {
                    let start = i + 1;
                    i += 1;
                    while i < v.len() && v[i] != b'"' {
                        if v[i] == b'\\' {
                            i += 1;
                        }
                        i += 1;
                    }
                    let s = v.get(start..i.min(v.len())).unwrap_or(&[]).to_vec();
                    i += 1;
                    if expect_key {
                        // normalise escapes through serde_json
                        let mut q = vec![b'"'];
                        q.extend_from_slice(&s);
                        q.push(b'"');
                        let name = serde_json::from_slice::<String>(&q).map(|x| x.into_bytes()).unwrap_or(s);
                        if let Some(top) = stack.last_mut() {
                            if top.contains(&name) {
                                return true;
                            }
                            top.push(name);
                        }
                        expect_key = false;
                    }
                }
                _ => i += 1,
            }
        }
        false
    }
    scan(data)
}

/// C14 / C16 / C17 on raw bytes.
pub fn parse_metablock(data: &[u8]) -> Result<(), String> {
    let a = serde_json::from_slice::<Metablock>(data);
    let b = serde_json::from_reader::<_, Metablock>(Chunked(data, 0));
    match (&a, &b) {
        (Ok(x), Ok(y)) if x == y => {}
        (Err(_), Err(_)) => {}
        _ => return Err(format!("C17: from_slice {:?} vs from_reader {:?}", a.as_ref().map(|_| "Ok").map_err(|e| e.to_string()), b.as_ref().map(|_| "Ok").map_err(|e| e.to_string()))),
    }
    if !has_duplicate_keys(data) {
        let c = serde_json::from_slice::<serde_json::Value>(data).ok().map(serde_json::from_value::<Metablock>);
        if let Some(c) = c {
            match (&a, &c) {
                (Ok(x), Ok(y)) if x == y => {}
                (Err(_), Err(_)) => {}
                _ => return Err(format!("C17: from_slice {:?} vs from_value {:?}", a.as_ref().map(|_| "Ok").map_err(|e| e.to_string()), c.as_ref().map(|_| "Ok").map_err(|e| e.to_string()))),
            }
        }
    }
    let _ = MetadataWrapper::try_from_bytes(data).map(|m| m.to_bytes());
    if let Ok(block) = a {
        for s in &block.signatures {
            let _ = s.key_id().prefix();
        }
        if let MetadataWrapper::Layout(l) = &block.metadata {
            let keys: Vec<&PublicKey> = l.keys.values().collect();
            let _ = block.verify(1, keys.iter().cloned());
            // fractional expiry is outside the round-trip domain ("whole seconds")
            if l.expires.timestamp_subsec_nanos() != 0 {
                return Ok(());
            }
        }
        let text = serde_json::to_string(&block).map_err(|e| format!("C16: serialise: {}", e))?;
        let back: Metablock = serde_json::from_str(&text).map_err(|e| format!("C16: own output does not parse: {} in {}", e, text))?;
        if back != block {
            return Err(format!("C16: value changed in round trip: {}", text));
        }
        let again = serde_json::to_string(&back).map_err(|e| e.to_string())?;
        if again != text {
            return Err(format!("C16: re-serialisation differs: {} vs {}", text, again));
        }
    }
    Ok(())
}

fn integer_only(v: &serde_json::Value) -> bool {
    match v {
        serde_json::Value::Number(n) => n.is_i64() || n.is_u64(),
        serde_json::Value::Array(a) => a.iter().all(integer_only),
        serde_json::Value::Object(o) => o.values().all(integer_only),
        _ => true,
    }
}

/// C10 on raw bytes.
pub fn cjson(data: &[u8]) -> Result<(), String> {
    let Ok(v) = Json::from_slice::<serde_json::Value>(data) else { return Ok(()) };
    match Json::canonicalize(&v) {
        Ok(bytes) => {
            if !integer_only(&v) {
                return Err(format!("C10: value with a non-integer number canonicalised: {}", String::from_utf8_lossy(&bytes)));
            }
            let back: serde_json::Value = serde_json::from_slice(&bytes).map_err(|e| format!("C10: canonical form is not valid JSON: {} in {:?}", e, String::from_utf8_lossy(&bytes)))?;
            if back != v {
                return Err(format!("C10: canonical form decodes to another value: {:?}", String::from_utf8_lossy(&bytes)));
            }
            let again = Json::canonicalize(&back).map_err(|e| e.to_string())?;
            if again != bytes {
                return Err("C10: canonicalisation not idempotent".into());
            }
            if bytes.iter().any(|b| *b == b'\n' || *b == b'\r' || *b == b'\t') {
                return Err("C10: raw control character / whitespace in canonical form".into());
            }
        }
        Err(_) => {
            if integer_only(&v) {
                return Err(format!("C10: integer-only value rejected: {}", v));
            }
        }
    }
    Ok(())
}

/// C12 / C14 on raw bytes: key importers.
pub fn keys(data: &[u8]) -> Result<(), String> {
    for scheme in [SignatureScheme::Ed25519, SignatureScheme::RsaSsaPssSha256, SignatureScheme::EcdsaP256Sha256] {
        if let Ok(k) = PublicKey::from_spki(data, scheme.clone()) {
            let out = k.as_spki().map_err(|e| format!("C12: as_spki failed after import: {}", e))?;
            let k2 = PublicKey::from_spki(&out, scheme.clone()).map_err(|e| format!("C12: exported SPKI does not re-import: {}", e))?;
            if k2 != k || k2.key_id() != k.key_id() {
                return Err("C12: key changes through export/import".into());
            }
            let j = serde_json::to_value(&k).map_err(|e| e.to_string())?;
            if let Ok(k3) = serde_json::from_value::<PublicKey>(j) {
                if k3.key_id() != k.key_id() {
                    return Err("C12: key id changes through JSON".into());
                }
            }
        }
        let _ = PrivateKey::from_pkcs8(data, scheme);
    }
    if let Ok(s) = std::str::from_utf8(data) {
        let _ = PublicKey::from_pem_spki(s, SignatureScheme::Ed25519);
        let _ = serde_json::from_str::<PublicKey>(s);
    }
    let _ = PrivateKey::from_ed25519(data);
    let _ = PublicKey::from_ed25519(data.to_vec());
    Ok(())
}

/// C20 / C14 on raw bytes.
pub fn pae(data: &[u8]) -> Result<(), String> {
    if let Ok((payload, typ)) = h::pae_unpack(data) {
        let packed = h::pae_pack(typ.clone(), &payload);
        match h::pae_unpack(&packed) {
            Ok((p2, t2)) if p2 == payload && t2 == typ => {}
            other => return Err(format!("C20: unpack(pack(decoded pair)) = {:?}", other.map(|x| (x.1, x.0.len())))),
        }
    }
    let _ = h::pae_try_unpack(data);
    // pack/unpack identity on the input split as (type, payload)
    if let Some(pos) = data.iter().position(|b| *b == 0) {
        if let Ok(t) = std::str::from_utf8(&data[..pos]) {
            let p = &data[pos + 1..];
            let packed = h::pae_pack(t.to_string(), p);
            match h::pae_unpack(&packed) {
                Ok((p2, t2)) if p2 == p && t2 == t => {}
                other => return Err(format!("C20: round trip of ({:?}, {} bytes) gives {:?}", t, p.len(), other.map(|x| (x.1, x.0.len())))),
            }
        }
    }
    Ok(())
}

/// C19 / C14 on raw bytes.
pub fn attest(data: &[u8]) -> Result<(), String> {
    if let Ok(p) = serde_json::from_slice::<PredicateWrapper>(data) {
        let bytes = p.clone().into_trait().to_bytes().map_err(|e| format!("C19: to_bytes: {}", e))?;
        let back: PredicateWrapper = serde_json::from_slice(&bytes).map_err(|e| format!("C19: canonical predicate does not parse: {} in {}", e, String::from_utf8_lossy(&bytes)))?;
        if back != p {
            return Err(format!("C19: predicate changes in round trip: {}", String::from_utf8_lossy(&bytes)));
        }
        let n = [
            serde_json::from_slice::<h::LinkV02>(data).is_ok(),
            serde_json::from_slice::<h::SLSAProvenanceV01>(data).is_ok(),
            serde_json::from_slice::<h::SLSAProvenanceV02>(data).is_ok(),
        ]
        .iter()
        .filter(|b| **b)
        .count();
        if n != 1 && !has_duplicate_keys(data) {
            return Err(format!("C19: {} concrete predicate formats accept the document", n));
        }
    }
    if let Ok(s) = serde_json::from_slice::<StatementWrapper>(data) {
        let bytes = s.into_trait().to_bytes().map_err(|e| format!("C19: to_bytes: {}", e))?;
        let back: StatementWrapper = serde_json::from_slice(&bytes).map_err(|e| format!("C19: canonical statement does not parse: {} in {}", e, String::from_utf8_lossy(&bytes)))?;
        let again = back.into_trait().to_bytes().map_err(|e| e.to_string())?;
        if again != bytes {
            return Err("C19: canonical statement not stable".into());
        }
    }
    let _ = h::EnvelopeFile::from_bytes(data);
    Ok(())
}
