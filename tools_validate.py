#!/usr/bin/env python3
"""Validate MANIFEST.json and evidence files against the schemas (run with python3-vt)."""
import json, sys, glob, jsonschema
jsonschema.validate(json.load(open('/verif/MANIFEST.json')), json.load(open('/root/.vp/MANIFEST.schema.json')))
print('manifest valid')
es = json.load(open('/root/.vp/EVIDENCE.schema.json'))
for f in sorted(glob.glob('/verif/evidence/*.json')):
    try:
        jsonschema.validate(json.load(open(f)), es); print(f, 'valid')
    except Exception as e:
        print(f, 'INVALID', str(e)[:300]); sys.exit(1)
