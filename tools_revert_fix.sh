#!/bin/bash
# For every `fixed:` line of KNOWN_FINDINGS.txt: undo that fix in /repo's working tree (reverse patch),
# run the property's quick check (must report a VIOLATION), and restore the tree.
# Never run while something else rebuilds /repo.
set -u
if [ -n "$(git -C /repo status --porcelain)" ]; then echo "/repo not clean"; exit 2; fi
grep '^fixed:' /verif/KNOWN_FINDINGS.txt | while read -r _ prop commit rest; do
  id="${prop#property=}"
  git -C /repo diff "$commit" "$commit^" -- src > /tmp/revert-$commit.patch
  if ! git -C /repo apply --check /tmp/revert-$commit.patch 2>/dev/null; then
    echo "[$id $commit] reverse patch does not apply to HEAD (later commits touch the same lines): skipped"; rm -f /tmp/revert-$commit.patch; continue
  fi
  git -C /repo apply /tmp/revert-$commit.patch
  out=$(/verif/check "$id" --tier quick 2>&1 | grep -E "^(VIOLATION|OK|INCONCLUSIVE|BUILD)" | head -2 | tr '\n' ' ')
  echo "[$id $commit] $out"
  git -C /repo checkout -- .
  rm -f /tmp/revert-$commit.patch
done
